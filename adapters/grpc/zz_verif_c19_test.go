package grpc

// C19 driver (observer only): drives the four interceptors
// (NewUnaryClientInterceptor, NewStreamClientInterceptor,
// NewUnaryServerInterceptor, NewStreamServerInterceptor) through the
// admitted x fallback x handler matrix by calling the interceptor function
// values directly with hand-made invoker / streamer / handler funcs and
// minimal fake streams. Prints one C19CASE line per case.

import (
	"google.golang.org/grpc/codes"
	"google.golang.org/grpc/status"
	"context"
	"errors"
	"fmt"
	"testing"

	"github.com/alibaba/sentinel-golang/core/base"
	"google.golang.org/grpc"
	"google.golang.org/grpc/metadata"
)

// >>> C19 COMMON BEGIN (generated from _common/c19_common.go.txt by _common/sync.sh)

import (
	c19bytes "bytes"
	c19context "context"
	c19json "encoding/json"
	c19fmt "fmt"
	c19os "os"
	c19runtime "runtime"
	c19strings "strings"
	c19sync "sync"
	c19testing "testing"

	c19api "github.com/alibaba/sentinel-golang/api"
	c19base "github.com/alibaba/sentinel-golang/core/base"
	c19flow "github.com/alibaba/sentinel-golang/core/flow"
	c19stat "github.com/alibaba/sentinel-golang/core/stat"
)

type c19Event struct {
	kind string
	res  string
	err  bool
}

type c19Recorder struct {
	mu  c19sync.Mutex
	log []c19Event
}

func (r *c19Recorder) Order() uint32 { return 0 }

func (r *c19Recorder) add(kind string, ctx *c19base.EntryContext, withErr bool) {
	name := "<nil-resource>"
	if ctx != nil && ctx.Resource != nil {
		name = ctx.Resource.Name()
	}
	r.mu.Lock()
	r.log = append(r.log, c19Event{kind: kind, res: name, err: withErr})
	r.mu.Unlock()
}

func (r *c19Recorder) OnEntryPassed(ctx *c19base.EntryContext) { r.add("passed", ctx, false) }
func (r *c19Recorder) OnEntryBlocked(ctx *c19base.EntryContext, _ *c19base.BlockError) {
	r.add("blocked", ctx, false)
}
func (r *c19Recorder) OnCompleted(ctx *c19base.EntryContext) {
	r.add("completed", ctx, ctx != nil && ctx.Err() != nil)
}

var (
	c19Once c19sync.Once
	c19Rec  = &c19Recorder{}
	// c19InitDoneByTestMain is set by a driver whose package has a TestMain
	// that already calls InitDefault, so that it happens once per process.
	c19InitDoneByTestMain = false
)

func c19Setup(t *c19testing.T) {
	c19Once.Do(func() {
		if !c19InitDoneByTestMain {
			if err := c19api.InitDefault(); err != nil {
				t.Fatalf("driver set-up: InitDefault: %v", err)
			}
		}
		c19api.GlobalSlotChain().AddStatSlot(c19Rec)
	})
}

type c19Case struct {
	Adapter               string `json:"adapter"`
	EntryPoint            string `json:"entry_point"`
	Resource              string `json:"resource"`
	AdmittedExpected      bool   `json:"admitted_expected"`
	Fallback              bool   `json:"fallback"`
	Handler               string `json:"handler"`
	HandlerCanReturnError bool   `json:"handler_can_return_error"`
	HandlerCalls          int    `json:"handler_calls"`
	FallbackCalls         int    `json:"fallback_calls"`
	Response              string `json:"response"`
	DefaultRejectionSeen  bool   `json:"default_rejection_seen"`
	Passed                int    `json:"passed"`
	Blocked               int    `json:"blocked"`
	Completed             int    `json:"completed"`
	CompletedWithError    bool   `json:"completed_with_error"`
	GaugeAfter            int    `json:"gauge_after"`
	NodeFound             bool   `json:"node_found"`
	EscapedPanic          string `json:"escaped_panic"`
	// the resource node's own event sums (each case has a resource of its own, so they start at 0);
	// they also see entries made on a private slot chain, which the recorder cannot
	NodePass          int  `json:"node_pass"`
	NodeBlock         int  `json:"node_block"`
	NodeComplete      int  `json:"node_complete"`
	NodeError         int  `json:"node_error"`
	PrivateChain      bool `json:"private_chain"`
	FallbackAvailable bool `json:"fallback_available"`
	// order of slot callbacks and handler / fallback calls for the resource, e.g. "passed,handler,completed"
	Seq string `json:"seq"`
	// HTTP drivers: the response body, and (when BodyChecked) the body the configured fallback writes
	Body         string `json:"body"`
	FallbackBody string `json:"fallback_body"`
	BodyChecked  bool   `json:"body_checked"`
	// request made earlier on the same resource ("" = none): thorough tier, two-request histories
	History string `json:"history"`
	// CtxDone: the request arrived with a context that is already cancelled (drivers whose entry point takes one)
	CtxDone bool `json:"ctx_done"`
	// BlockNoRule: the request was rejected by a block error without a triggered rule
	BlockNoRule bool `json:"block_without_rule"`
	Notes                 string `json:"notes,omitempty"`
}

// handlerCalled / fallbackCalled count a call and put a marker into the
// recorder log, so that the order of slot events and calls is observable.
func (c *c19Case) handlerCalled() {
	c.HandlerCalls++
	c19Rec.mark("handler", c.Resource)
}

func (c *c19Case) fallbackCalled() {
	c.FallbackCalls++
	c19Rec.mark("fallback", c.Resource)
}

func (r *c19Recorder) mark(kind, resource string) {
	r.mu.Lock()
	r.log = append(r.log, c19Event{kind: kind, res: resource})
	r.mu.Unlock()
}

// c19Rules installs the rule set of one case: exactly one blocking rule for
// the resource when admitted=false, no rule at all when admitted=true.
func c19Rules(t *c19testing.T, resource string, admitted bool) {
	c19TakeBase(resource)
	rules := []*c19flow.Rule{}
	if !admitted && c19BlockNoRule {
		// a throttling rule whose threshold is below the batch count rejects WITHOUT naming a rule in the block error
		rules = append(rules, &c19flow.Rule{Resource: resource, ControlBehavior: c19flow.Throttling, Threshold: 0.5})
	} else if !admitted {
		rules = append(rules, &c19flow.Rule{Resource: resource, Threshold: 0})
	}
	if _, err := c19flow.LoadRules(rules); err != nil {
		t.Fatalf("driver set-up: c19flow.LoadRules: %v", err)
	}
}

// c19Base is what the resource's node and the recorder log showed when the case began: every case
// is judged on the difference, so that the second request of a history is judged like a first one.
type c19BaseT struct{ pass, block, complete, err, logLen int }

var c19Base c19BaseT

func c19TakeBase(resource string) {
	c19Base = c19BaseT{}
	if n := c19stat.GetResourceNode(resource); n != nil {
		c19Base.pass = int(n.GetSum(c19base.MetricEventPass))
		c19Base.block = int(n.GetSum(c19base.MetricEventBlock))
		c19Base.complete = int(n.GetSum(c19base.MetricEventComplete))
		c19Base.err = int(n.GetSum(c19base.MetricEventError))
	}
	c19Rec.mu.Lock()
	c19Base.logLen = len(c19Rec.log)
	c19Rec.mu.Unlock()
}

// pair mode (C19_PAIRS=1): c19PairTag makes all cases of one history share a resource
var (
	c19PairTag string
	c19History string
)

// c19PanicOrigin holds "func@file:line" of the frame that raised the panic
// last caught by c19Guard ("" if none); c19Finish moves it into the notes.
var c19PanicOrigin string

// c19Guard runs f and returns the string form of a panic escaping from it.
func c19Guard(f func()) (escaped string) {
	c19PanicOrigin = ""
	defer func() {
		if r := recover(); r != nil {
			escaped = c19fmt.Sprint(r)
			if escaped == "" {
				escaped = "<empty panic value>"
			}
			// still on the panicking stack: first frame below the runtime's
			// panic machinery is the one that raised the panic
			pcs := make([]uintptr, 64)
			frames := c19runtime.CallersFrames(pcs[:c19runtime.Callers(2, pcs)])
			for {
				fr, more := frames.Next()
				if fr.Function != "" && !c19strings.HasPrefix(fr.Function, "runtime.") {
					c19PanicOrigin = c19fmt.Sprintf("%s@%s:%d", fr.Function, fr.File, fr.Line)
					break
				}
				if !more {
					break
				}
			}
		}
	}()
	f()
	return ""
}

// c19Finish reads recorder log and gauge for the case and prints the line.
func c19Finish(t *c19testing.T, c *c19Case) {
	seq := ""
	c19Rec.mu.Lock()
	for _, e := range c19Rec.log[c19Base.logLen:] {
		if e.res != c.Resource {
			continue
		}
		if seq != "" {
			seq += ","
		}
		seq += e.kind
		switch e.kind {
		case "passed":
			c.Passed++
		case "blocked":
			c.Blocked++
		case "completed":
			c.Completed++
			if e.err {
				c.CompletedWithError = true
			}
		}
	}
	c19Rec.mu.Unlock()
	if c.Notes != "" {
		c.Notes += "; "
	}
	c.Notes += "seq=[" + seq + "]"
	c.Seq = seq
	if c19PanicOrigin != "" {
		c.Notes += "; panic_origin=" + c19PanicOrigin
		c19PanicOrigin = ""
	}
	if n := c19stat.GetResourceNode(c.Resource); n != nil {
		c.NodeFound = true
		c.GaugeAfter = int(n.CurrentConcurrency())
		c.NodePass = int(n.GetSum(c19base.MetricEventPass)) - c19Base.pass
		c.NodeBlock = int(n.GetSum(c19base.MetricEventBlock)) - c19Base.block
		c.NodeComplete = int(n.GetSum(c19base.MetricEventComplete)) - c19Base.complete
		c.NodeError = int(n.GetSum(c19base.MetricEventError)) - c19Base.err
	}
	c.History = c19History
	c.CtxDone = c19CtxDone
	c.BlockNoRule = c19BlockNoRule
	c.PrivateChain = c19strings.Contains(c.Notes, "private slot chain")
	c.FallbackAvailable = !c19strings.Contains(c.Notes, "fallback_option_available=false")
	var buf c19bytes.Buffer
	enc := c19json.NewEncoder(&buf)
	enc.SetEscapeHTML(false) // keep "<nil>" readable
	if err := enc.Encode(c); err != nil {
		t.Fatalf("driver set-up: json: %v", err)
	}
	b := c19bytes.TrimSpace(buf.Bytes())
	c19fmt.Printf("C19CASE %s\n", b)
}

// c19ErrText renders a returned error for the "response" field.
func c19ErrText(err error) string {
	if err == nil {
		return "<nil>"
	}
	return err.Error()
}

// c19IsBlockErr tells whether err is the *base.BlockError itself (the
// adapters' default rejection for the RPC style entry points).
func c19IsBlockErr(err error) bool {
	_, ok := err.(*c19base.BlockError)
	return ok
}

// c19NodeCounters renders the resource node's own event sums; used in "notes"
// for entry points that run on a private slot chain, which the recorder
// registered on the global slot chain cannot see.
func c19NodeCounters(resource string) string {
	n := c19stat.GetResourceNode(resource)
	if n == nil {
		return "node_counters=<no node>"
	}
	return c19fmt.Sprintf("node_counters: pass=%d block=%d complete=%d error=%d",
		n.GetSum(c19base.MetricEventPass), n.GetSum(c19base.MetricEventBlock),
		n.GetSum(c19base.MetricEventComplete), n.GetSum(c19base.MetricEventError))
}

// c19UsesCtx is set by drivers whose entry point receives the request's context.Context from the caller;
// c19CtxDone is the request shape "the context is already cancelled when the request arrives" (the
// caller went away): such a request is still decided, handled and exited like any other.
var (
	c19UsesCtx = false
	c19CtxDone = false
	// c19BlockNoRule: the blocking rule of the case rejects without a triggered rule
	c19BlockNoRule = false
)

// c19Ctx gives the context of the current request shape.
func c19Ctx(parent c19context.Context) c19context.Context {
	if !c19CtxDone {
		return parent
	}
	ctx, cancel := c19context.WithCancel(parent)
	cancel()
	return ctx
}

// c19Matrix calls f for the 12 cases admitted x fallback x handler (x the request shapes).
func c19Matrix(f func(admitted, fallback bool, handler string)) {
	for _, done := range c19Bools[:] {
		done = !done // plain requests first
		if done && !c19UsesCtx {
			continue
		}
		c19CtxDone = done
		for _, admitted := range c19Bools {
			for _, fallback := range c19Bools {
				for _, handler := range c19Handlers {
					f(admitted, fallback, handler)
				}
			}
		}
	}
	c19CtxDone = false
	// blocked requests once more, rejected by a block error that carries no triggered rule
	c19BlockNoRule = true
	for _, fallback := range c19Bools {
		for _, handler := range c19Handlers[:2] {
			f(false, fallback, handler)
		}
	}
	c19BlockNoRule = false
	if c19os.Getenv("C19_PAIRS") == "" {
		return
	}
	// every ordered pair: a first request (decision x handler, default rejection) and then each of
	// the 12 inputs as the second request on the SAME resource
	n := 0
	for _, adm1 := range c19Bools {
		for _, h1 := range c19Handlers {
			for _, admitted := range c19Bools {
				for _, fallback := range c19Bools {
					for _, handler := range c19Handlers {
						n++
						c19PairTag = c19fmt.Sprint(n)
						c19History = ""
						f(adm1, false, h1)
						c19History = c19fmt.Sprintf("adm%t-%s", adm1, h1)
						f(admitted, fallback, handler)
						c19PairTag, c19History = "", ""
					}
				}
			}
		}
	}
}

var c19Bools = []bool{true, false}
// "errtyped": the handler fails with the framework's own error type carrying a client-error status (where the
// framework has one; elsewhere it is a second plain failure)
var c19Handlers = []string{"ok", "err", "panic", "errtyped"}

func c19Name(ep string, admitted, fallback bool, handler string) string {
	if c19PairTag != "" {
		return c19fmt.Sprintf("c19-%s-pair%s", ep, c19PairTag)
	}
	if c19CtxDone {
		return c19fmt.Sprintf("c19-%s-adm%t-fb%t-%s-ctxdone", ep, admitted, fallback, handler)
	}
	if c19BlockNoRule {
		return c19fmt.Sprintf("c19-%s-adm%t-fb%t-%s-norule", ep, admitted, fallback, handler)
	}
	return c19fmt.Sprintf("c19-%s-adm%t-fb%t-%s", ep, admitted, fallback, handler)
}

// <<< C19 COMMON END

var (
	c19ErrHandler  = errors.New("c19 handler error")
	c19ErrFallback = errors.New("c19 fallback error")
)

// c19ClientStream is a minimal hand-written grpc.ClientStream.
type c19ClientStream struct{ ctx context.Context }

func (s *c19ClientStream) Header() (metadata.MD, error) { return metadata.MD{}, nil }
func (s *c19ClientStream) Trailer() metadata.MD         { return metadata.MD{} }
func (s *c19ClientStream) CloseSend() error             { return nil }
func (s *c19ClientStream) Context() context.Context     { return s.ctx }
func (s *c19ClientStream) SendMsg(m interface{}) error  { return nil }
func (s *c19ClientStream) RecvMsg(m interface{}) error  { return nil }

// c19ServerStream is a minimal hand-written grpc.ServerStream.
type c19ServerStream struct{ ctx context.Context }

func (s *c19ServerStream) SetHeader(metadata.MD) error  { return nil }
func (s *c19ServerStream) SendHeader(metadata.MD) error { return nil }
func (s *c19ServerStream) SetTrailer(metadata.MD)       {}
func (s *c19ServerStream) Context() context.Context     { return s.ctx }
func (s *c19ServerStream) SendMsg(m interface{}) error  { return nil }
func (s *c19ServerStream) RecvMsg(m interface{}) error  { return nil }

func TestVerifC19(t *testing.T) {
	// server_test.go's TestMain has already called sentinel.InitDefault().
	c19InitDoneByTestMain = true
	c19Setup(t)
	for _, ep := range []string{
		"NewUnaryClientInterceptor",
		"NewStreamClientInterceptor",
		"NewUnaryServerInterceptor",
		"NewStreamServerInterceptor",
	} {
		ep := ep
		c19Matrix(func(admitted, fallback bool, handler string) {
			c19GrpcCase(t, ep, admitted, fallback, handler)
		})
	}
}

func c19GrpcCase(t *testing.T, ep string, admitted, fallback bool, handler string) {
	c := &c19Case{
		Adapter:               "grpc",
		EntryPoint:            ep,
		Resource:              c19Name(ep, admitted, fallback, handler),
		AdmittedExpected:      admitted,
		Fallback:              fallback,
		Handler:               handler,
		HandlerCanReturnError: true,
	}
	c19Rules(t, c.Resource, admitted)

	ctx := c19Ctx(context.Background())
	method := "/c19.Service/" + c.Resource // differs from the extractor's name on purpose
	// behave runs the common part of every hand-made invoker/streamer/handler.
	behave := func() error {
		c.handlerCalled()
		switch handler {
		case "errtyped":
			return status.Error(codes.InvalidArgument, "c19 typed handler error")
		case "err":
			return c19ErrHandler
		case "panic":
			panic("c19 handler panic")
		}
		return nil
	}

	// what the configured fallback answers: an error of its own, or nil (graceful degradation: the caller is
	// served something else and must not see a rejection) - the handler dimension is free on the blocked path
	fbResult := func() error {
		if handler == "ok" {
			return nil
		}
		return c19ErrFallback
	}
	var err error
	extra := ""
	switch ep {
	case "NewUnaryClientInterceptor":
		opts := []Option{WithUnaryClientResourceExtractor(
			func(context.Context, string, interface{}, *grpc.ClientConn) string { return c.Resource })}
		if fallback {
			opts = append(opts, WithUnaryClientBlockFallback(
				func(context.Context, string, interface{}, *grpc.ClientConn, *base.BlockError) error {
					c.fallbackCalled()
					return fbResult()
				}))
		}
		interceptor := NewUnaryClientInterceptor(opts...)
		invoker := func(ctx context.Context, method string, req, reply interface{}, cc *grpc.ClientConn, opts ...grpc.CallOption) error {
			return behave()
		}
		c.Notes = "interceptor called directly; handler = the grpc.UnaryInvoker"
		c.EscapedPanic = c19Guard(func() {
			err = interceptor(ctx, method, "c19 req", new(string), nil, invoker)
		})

	case "NewStreamClientInterceptor":
		opts := []Option{WithStreamClientResourceExtractor(
			func(context.Context, *grpc.StreamDesc, *grpc.ClientConn, string) string { return c.Resource })}
		if fallback {
			opts = append(opts, WithStreamClientBlockFallback(
				func(context.Context, *grpc.StreamDesc, *grpc.ClientConn, string, *base.BlockError) (grpc.ClientStream, error) {
					c.fallbackCalled()
					return nil, fbResult()
				}))
		}
		interceptor := NewStreamClientInterceptor(opts...)
		streamer := func(ctx context.Context, desc *grpc.StreamDesc, cc *grpc.ClientConn, method string, opts ...grpc.CallOption) (grpc.ClientStream, error) {
			if e := behave(); e != nil {
				return nil, e
			}
			return &c19ClientStream{ctx: ctx}, nil
		}
		desc := &grpc.StreamDesc{StreamName: "c19", ClientStreams: true, ServerStreams: true}
		c.Notes = "interceptor called directly; handler = the grpc.Streamer (returns a fake ClientStream on ok)"
		var cs grpc.ClientStream
		c.EscapedPanic = c19Guard(func() {
			cs, err = interceptor(ctx, desc, nil, method, streamer)
		})
		extra = fmt.Sprintf("returned_stream_nil=%t", cs == nil)

	case "NewUnaryServerInterceptor":
		opts := []Option{WithUnaryServerResourceExtractor(
			func(context.Context, interface{}, *grpc.UnaryServerInfo) string { return c.Resource })}
		if fallback {
			opts = append(opts, WithUnaryServerBlockFallback(
				func(context.Context, interface{}, *grpc.UnaryServerInfo, *base.BlockError) (interface{}, error) {
					c.fallbackCalled()
					return "c19 fallback resp", fbResult()
				}))
		}
		interceptor := NewUnaryServerInterceptor(opts...)
		h := func(ctx context.Context, req interface{}) (interface{}, error) {
			if e := behave(); e != nil {
				return nil, e
			}
			return "c19 handler resp", nil
		}
		info := &grpc.UnaryServerInfo{FullMethod: method}
		c.Notes = "interceptor called directly; handler = the grpc.UnaryHandler"
		var resp interface{}
		c.EscapedPanic = c19Guard(func() {
			resp, err = interceptor(ctx, "c19 req", info, h)
		})
		extra = fmt.Sprintf("returned_resp=%v", resp)

	case "NewStreamServerInterceptor":
		opts := []Option{WithStreamServerResourceExtractor(
			func(interface{}, grpc.ServerStream, *grpc.StreamServerInfo) string { return c.Resource })}
		if fallback {
			opts = append(opts, WithStreamServerBlockFallback(
				func(interface{}, grpc.ServerStream, *grpc.StreamServerInfo, *base.BlockError) error {
					c.fallbackCalled()
					return fbResult()
				}))
		}
		interceptor := NewStreamServerInterceptor(opts...)
		h := func(srv interface{}, stream grpc.ServerStream) error {
			return behave()
		}
		info := &grpc.StreamServerInfo{FullMethod: method, IsClientStream: true, IsServerStream: true}
		c.Notes = "interceptor called directly with a fake ServerStream; handler = the grpc.StreamHandler"
		c.EscapedPanic = c19Guard(func() {
			err = interceptor("c19 srv", &c19ServerStream{ctx: ctx}, info, h)
		})
	}

	c.Response = c19ErrText(err)
	c.DefaultRejectionSeen = c19IsBlockErr(err)
	if !admitted && fallback {
		// the caller must get exactly what the fallback answered
		c.Body, c.FallbackBody, c.BodyChecked = c19ErrText(err), c19ErrText(fbResult()), true
	}
	if extra != "" {
		c.Notes += "; " + extra
	}
	c19Finish(t, c)
}

func init() { c19UsesCtx = true }
