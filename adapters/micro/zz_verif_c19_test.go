package micro

// C19 driver (observer only): drives NewClientWrapper (Call and Stream, each in
// normal and in outlier mode), NewHandlerWrapper and NewStreamWrapper through
// the admitted x fallback x handler matrix by calling the wrapper values
// directly with hand-made inner client / handler funcs and minimal fake
// requests and streams. Prints one C19CASE line per case.
//
// Entry point names: "NewClientWrapper", "NewClientWrapper+outlier",
// "NewHandlerWrapper", "NewStreamWrapper", and (the Stream method of the
// client returned by NewClientWrapper) "NewClientWrapper.Stream",
// "NewClientWrapper.Stream+outlier". The last one runs last because the adapter
// adds slots to the GLOBAL slot chain on every such call.

import (
	merrors "github.com/micro/go-micro/v2/errors"
	"context"
	"errors"
	"fmt"
	"testing"

	"github.com/alibaba/sentinel-golang/core/base"
	"github.com/alibaba/sentinel-golang/core/circuitbreaker"
	"github.com/alibaba/sentinel-golang/core/outlier"
	"github.com/micro/go-micro/v2/client"
	"github.com/micro/go-micro/v2/client/selector"
	"github.com/micro/go-micro/v2/codec"
	"github.com/micro/go-micro/v2/registry"
	"github.com/micro/go-micro/v2/server"
)

// >>> C19 COMMON BEGIN (generated from _common/c19_common.go.txt by _common/sync.sh)

import (
	c19bytes "bytes"
	c19context "context"
	c19json "encoding/json"
	c19fmt "fmt"
	c19os "os"
	c19runtime "runtime"
	c19strings "strings"
	c19sync "sync"
	c19testing "testing"

	c19api "github.com/alibaba/sentinel-golang/api"
	c19base "github.com/alibaba/sentinel-golang/core/base"
	c19flow "github.com/alibaba/sentinel-golang/core/flow"
	c19stat "github.com/alibaba/sentinel-golang/core/stat"
)

type c19Event struct {
	kind string
	res  string
	err  bool
}

type c19Recorder struct {
	mu  c19sync.Mutex
	log []c19Event
}

func (r *c19Recorder) Order() uint32 { return 0 }

func (r *c19Recorder) add(kind string, ctx *c19base.EntryContext, withErr bool) {
	name := "<nil-resource>"
	if ctx != nil && ctx.Resource != nil {
		name = ctx.Resource.Name()
	}
	r.mu.Lock()
	r.log = append(r.log, c19Event{kind: kind, res: name, err: withErr})
	r.mu.Unlock()
}

func (r *c19Recorder) OnEntryPassed(ctx *c19base.EntryContext) { r.add("passed", ctx, false) }
func (r *c19Recorder) OnEntryBlocked(ctx *c19base.EntryContext, _ *c19base.BlockError) {
	r.add("blocked", ctx, false)
}
func (r *c19Recorder) OnCompleted(ctx *c19base.EntryContext) {
	r.add("completed", ctx, ctx != nil && ctx.Err() != nil)
}

var (
	c19Once c19sync.Once
	c19Rec  = &c19Recorder{}
	// c19InitDoneByTestMain is set by a driver whose package has a TestMain
	// that already calls InitDefault, so that it happens once per process.
	c19InitDoneByTestMain = false
)

func c19Setup(t *c19testing.T) {
	c19Once.Do(func() {
		if !c19InitDoneByTestMain {
			if err := c19api.InitDefault(); err != nil {
				t.Fatalf("driver set-up: InitDefault: %v", err)
			}
		}
		c19api.GlobalSlotChain().AddStatSlot(c19Rec)
	})
}

type c19Case struct {
	Adapter               string `json:"adapter"`
	EntryPoint            string `json:"entry_point"`
	Resource              string `json:"resource"`
	AdmittedExpected      bool   `json:"admitted_expected"`
	Fallback              bool   `json:"fallback"`
	Handler               string `json:"handler"`
	HandlerCanReturnError bool   `json:"handler_can_return_error"`
	HandlerCalls          int    `json:"handler_calls"`
	FallbackCalls         int    `json:"fallback_calls"`
	Response              string `json:"response"`
	DefaultRejectionSeen  bool   `json:"default_rejection_seen"`
	Passed                int    `json:"passed"`
	Blocked               int    `json:"blocked"`
	Completed             int    `json:"completed"`
	CompletedWithError    bool   `json:"completed_with_error"`
	GaugeAfter            int    `json:"gauge_after"`
	NodeFound             bool   `json:"node_found"`
	EscapedPanic          string `json:"escaped_panic"`
	// the resource node's own event sums (each case has a resource of its own, so they start at 0);
	// they also see entries made on a private slot chain, which the recorder cannot
	NodePass          int  `json:"node_pass"`
	NodeBlock         int  `json:"node_block"`
	NodeComplete      int  `json:"node_complete"`
	NodeError         int  `json:"node_error"`
	PrivateChain      bool `json:"private_chain"`
	FallbackAvailable bool `json:"fallback_available"`
	// order of slot callbacks and handler / fallback calls for the resource, e.g. "passed,handler,completed"
	Seq string `json:"seq"`
	// HTTP drivers: the response body, and (when BodyChecked) the body the configured fallback writes
	Body         string `json:"body"`
	FallbackBody string `json:"fallback_body"`
	BodyChecked  bool   `json:"body_checked"`
	// request made earlier on the same resource ("" = none): thorough tier, two-request histories
	History string `json:"history"`
	// CtxDone: the request arrived with a context that is already cancelled (drivers whose entry point takes one)
	CtxDone bool `json:"ctx_done"`
	// BlockNoRule: the request was rejected by a block error without a triggered rule
	BlockNoRule bool `json:"block_without_rule"`
	Notes                 string `json:"notes,omitempty"`
}

// handlerCalled / fallbackCalled count a call and put a marker into the
// recorder log, so that the order of slot events and calls is observable.
func (c *c19Case) handlerCalled() {
	c.HandlerCalls++
	c19Rec.mark("handler", c.Resource)
}

func (c *c19Case) fallbackCalled() {
	c.FallbackCalls++
	c19Rec.mark("fallback", c.Resource)
}

func (r *c19Recorder) mark(kind, resource string) {
	r.mu.Lock()
	r.log = append(r.log, c19Event{kind: kind, res: resource})
	r.mu.Unlock()
}

// c19Rules installs the rule set of one case: exactly one blocking rule for
// the resource when admitted=false, no rule at all when admitted=true.
func c19Rules(t *c19testing.T, resource string, admitted bool) {
	c19TakeBase(resource)
	rules := []*c19flow.Rule{}
	if !admitted && c19BlockNoRule {
		// a throttling rule whose threshold is below the batch count rejects WITHOUT naming a rule in the block error
		rules = append(rules, &c19flow.Rule{Resource: resource, ControlBehavior: c19flow.Throttling, Threshold: 0.5})
	} else if !admitted {
		rules = append(rules, &c19flow.Rule{Resource: resource, Threshold: 0})
	}
	if _, err := c19flow.LoadRules(rules); err != nil {
		t.Fatalf("driver set-up: c19flow.LoadRules: %v", err)
	}
}

// c19Base is what the resource's node and the recorder log showed when the case began: every case
// is judged on the difference, so that the second request of a history is judged like a first one.
type c19BaseT struct{ pass, block, complete, err, logLen int }

var c19Base c19BaseT

func c19TakeBase(resource string) {
	c19Base = c19BaseT{}
	if n := c19stat.GetResourceNode(resource); n != nil {
		c19Base.pass = int(n.GetSum(c19base.MetricEventPass))
		c19Base.block = int(n.GetSum(c19base.MetricEventBlock))
		c19Base.complete = int(n.GetSum(c19base.MetricEventComplete))
		c19Base.err = int(n.GetSum(c19base.MetricEventError))
	}
	c19Rec.mu.Lock()
	c19Base.logLen = len(c19Rec.log)
	c19Rec.mu.Unlock()
}

// pair mode (C19_PAIRS=1): c19PairTag makes all cases of one history share a resource
var (
	c19PairTag string
	c19History string
)

// c19PanicOrigin holds "func@file:line" of the frame that raised the panic
// last caught by c19Guard ("" if none); c19Finish moves it into the notes.
var c19PanicOrigin string

// c19Guard runs f and returns the string form of a panic escaping from it.
func c19Guard(f func()) (escaped string) {
	c19PanicOrigin = ""
	defer func() {
		if r := recover(); r != nil {
			escaped = c19fmt.Sprint(r)
			if escaped == "" {
				escaped = "<empty panic value>"
			}
			// still on the panicking stack: first frame below the runtime's
			// panic machinery is the one that raised the panic
			pcs := make([]uintptr, 64)
			frames := c19runtime.CallersFrames(pcs[:c19runtime.Callers(2, pcs)])
			for {
				fr, more := frames.Next()
				if fr.Function != "" && !c19strings.HasPrefix(fr.Function, "runtime.") {
					c19PanicOrigin = c19fmt.Sprintf("%s@%s:%d", fr.Function, fr.File, fr.Line)
					break
				}
				if !more {
					break
				}
			}
		}
	}()
	f()
	return ""
}

// c19Finish reads recorder log and gauge for the case and prints the line.
func c19Finish(t *c19testing.T, c *c19Case) {
	seq := ""
	c19Rec.mu.Lock()
	for _, e := range c19Rec.log[c19Base.logLen:] {
		if e.res != c.Resource {
			continue
		}
		if seq != "" {
			seq += ","
		}
		seq += e.kind
		switch e.kind {
		case "passed":
			c.Passed++
		case "blocked":
			c.Blocked++
		case "completed":
			c.Completed++
			if e.err {
				c.CompletedWithError = true
			}
		}
	}
	c19Rec.mu.Unlock()
	if c.Notes != "" {
		c.Notes += "; "
	}
	c.Notes += "seq=[" + seq + "]"
	c.Seq = seq
	if c19PanicOrigin != "" {
		c.Notes += "; panic_origin=" + c19PanicOrigin
		c19PanicOrigin = ""
	}
	if n := c19stat.GetResourceNode(c.Resource); n != nil {
		c.NodeFound = true
		c.GaugeAfter = int(n.CurrentConcurrency())
		c.NodePass = int(n.GetSum(c19base.MetricEventPass)) - c19Base.pass
		c.NodeBlock = int(n.GetSum(c19base.MetricEventBlock)) - c19Base.block
		c.NodeComplete = int(n.GetSum(c19base.MetricEventComplete)) - c19Base.complete
		c.NodeError = int(n.GetSum(c19base.MetricEventError)) - c19Base.err
	}
	c.History = c19History
	c.CtxDone = c19CtxDone
	c.BlockNoRule = c19BlockNoRule
	c.PrivateChain = c19strings.Contains(c.Notes, "private slot chain")
	c.FallbackAvailable = !c19strings.Contains(c.Notes, "fallback_option_available=false")
	var buf c19bytes.Buffer
	enc := c19json.NewEncoder(&buf)
	enc.SetEscapeHTML(false) // keep "<nil>" readable
	if err := enc.Encode(c); err != nil {
		t.Fatalf("driver set-up: json: %v", err)
	}
	b := c19bytes.TrimSpace(buf.Bytes())
	c19fmt.Printf("C19CASE %s\n", b)
}

// c19ErrText renders a returned error for the "response" field.
func c19ErrText(err error) string {
	if err == nil {
		return "<nil>"
	}
	return err.Error()
}

// c19IsBlockErr tells whether err is the *base.BlockError itself (the
// adapters' default rejection for the RPC style entry points).
func c19IsBlockErr(err error) bool {
	_, ok := err.(*c19base.BlockError)
	return ok
}

// c19NodeCounters renders the resource node's own event sums; used in "notes"
// for entry points that run on a private slot chain, which the recorder
// registered on the global slot chain cannot see.
func c19NodeCounters(resource string) string {
	n := c19stat.GetResourceNode(resource)
	if n == nil {
		return "node_counters=<no node>"
	}
	return c19fmt.Sprintf("node_counters: pass=%d block=%d complete=%d error=%d",
		n.GetSum(c19base.MetricEventPass), n.GetSum(c19base.MetricEventBlock),
		n.GetSum(c19base.MetricEventComplete), n.GetSum(c19base.MetricEventError))
}

// c19UsesCtx is set by drivers whose entry point receives the request's context.Context from the caller;
// c19CtxDone is the request shape "the context is already cancelled when the request arrives" (the
// caller went away): such a request is still decided, handled and exited like any other.
var (
	c19UsesCtx = false
	c19CtxDone = false
	// c19BlockNoRule: the blocking rule of the case rejects without a triggered rule
	c19BlockNoRule = false
)

// c19Ctx gives the context of the current request shape.
func c19Ctx(parent c19context.Context) c19context.Context {
	if !c19CtxDone {
		return parent
	}
	ctx, cancel := c19context.WithCancel(parent)
	cancel()
	return ctx
}

// c19Matrix calls f for the 12 cases admitted x fallback x handler (x the request shapes).
func c19Matrix(f func(admitted, fallback bool, handler string)) {
	for _, done := range c19Bools[:] {
		done = !done // plain requests first
		if done && !c19UsesCtx {
			continue
		}
		c19CtxDone = done
		for _, admitted := range c19Bools {
			for _, fallback := range c19Bools {
				for _, handler := range c19Handlers {
					f(admitted, fallback, handler)
				}
			}
		}
	}
	c19CtxDone = false
	// blocked requests once more, rejected by a block error that carries no triggered rule
	c19BlockNoRule = true
	for _, fallback := range c19Bools {
		for _, handler := range c19Handlers[:2] {
			f(false, fallback, handler)
		}
	}
	c19BlockNoRule = false
	if c19os.Getenv("C19_PAIRS") == "" {
		return
	}
	// every ordered pair: a first request (decision x handler, default rejection) and then each of
	// the 12 inputs as the second request on the SAME resource
	n := 0
	for _, adm1 := range c19Bools {
		for _, h1 := range c19Handlers {
			for _, admitted := range c19Bools {
				for _, fallback := range c19Bools {
					for _, handler := range c19Handlers {
						n++
						c19PairTag = c19fmt.Sprint(n)
						c19History = ""
						f(adm1, false, h1)
						c19History = c19fmt.Sprintf("adm%t-%s", adm1, h1)
						f(admitted, fallback, handler)
						c19PairTag, c19History = "", ""
					}
				}
			}
		}
	}
}

var c19Bools = []bool{true, false}
// "errtyped": the handler fails with the framework's own error type carrying a client-error status (where the
// framework has one; elsewhere it is a second plain failure)
var c19Handlers = []string{"ok", "err", "panic", "errtyped"}

func c19Name(ep string, admitted, fallback bool, handler string) string {
	if c19PairTag != "" {
		return c19fmt.Sprintf("c19-%s-pair%s", ep, c19PairTag)
	}
	if c19CtxDone {
		return c19fmt.Sprintf("c19-%s-adm%t-fb%t-%s-ctxdone", ep, admitted, fallback, handler)
	}
	if c19BlockNoRule {
		return c19fmt.Sprintf("c19-%s-adm%t-fb%t-%s-norule", ep, admitted, fallback, handler)
	}
	return c19fmt.Sprintf("c19-%s-adm%t-fb%t-%s", ep, admitted, fallback, handler)
}

// <<< C19 COMMON END

var (
	c19ErrHandler  = errors.New("c19 handler error")
	c19ErrFallback = errors.New("c19 fallback error")
)

// ---- fake client side

// c19ClientRequest is a minimal hand-written client.Request.
type c19ClientRequest struct {
	service, method string
	stream          bool
}

func (r *c19ClientRequest) Service() string     { return r.service }
func (r *c19ClientRequest) Method() string      { return r.method }
func (r *c19ClientRequest) Endpoint() string    { return r.method }
func (r *c19ClientRequest) ContentType() string { return "application/json" }
func (r *c19ClientRequest) Body() interface{}   { return "c19 req" }
func (r *c19ClientRequest) Codec() codec.Writer { return nil }
func (r *c19ClientRequest) Stream() bool        { return r.stream }

// c19ClientStream is a minimal hand-written client.Stream.
type c19ClientStream struct {
	ctx context.Context
	req client.Request
}

func (s *c19ClientStream) Context() context.Context  { return s.ctx }
func (s *c19ClientStream) Request() client.Request   { return s.req }
func (s *c19ClientStream) Response() client.Response { return nil }
func (s *c19ClientStream) Send(interface{}) error    { return nil }
func (s *c19ClientStream) Recv(interface{}) error    { return nil }
func (s *c19ClientStream) Error() error              { return nil }
func (s *c19ClientStream) Close() error              { return nil }

// c19InnerClient is the hand-made client.Client that NewClientWrapper wraps.
// Call and Stream treat the call options the way go-micro's rpcClient does:
// apply them, run the select filters over the service list (one service, one
// node), wrap the low level call func with the CallWrappers (Call only), then
// do the "remote call", which is the case's handler behaviour.
type c19InnerClient struct {
	behave func() error
	note   string
}

func (ic *c19InnerClient) Init(...client.Option) error { return nil }
func (ic *c19InnerClient) Options() client.Options     { return client.Options{} }
func (ic *c19InnerClient) NewMessage(string, interface{}, ...client.MessageOption) client.Message {
	return nil
}
func (ic *c19InnerClient) NewRequest(service, endpoint string, req interface{}, _ ...client.RequestOption) client.Request {
	return &c19ClientRequest{service: service, method: endpoint}
}
func (ic *c19InnerClient) Publish(context.Context, client.Message, ...client.PublishOption) error {
	return nil
}
func (ic *c19InnerClient) String() string { return "c19" }

func (ic *c19InnerClient) pick(req client.Request, opts []client.CallOption) (client.CallOptions, *registry.Node) {
	var co client.CallOptions
	for _, o := range opts {
		o(&co)
	}
	var so selector.SelectOptions
	for _, o := range co.SelectOptions {
		o(&so)
	}
	services := []*registry.Service{{
		Name:  req.Service(),
		Nodes: []*registry.Node{{Id: "c19-node-1", Address: "127.0.0.1:19019"}},
	}}
	for _, f := range so.Filters {
		services = f(services)
	}
	ic.note = fmt.Sprintf("inner client saw select_filters=%d call_wrappers=%d", len(so.Filters), len(co.CallWrappers))
	var node *registry.Node
	if len(services) > 0 && len(services[0].Nodes) > 0 {
		node = services[0].Nodes[0]
	}
	return co, node
}

func (ic *c19InnerClient) Call(ctx context.Context, req client.Request, rsp interface{}, opts ...client.CallOption) error {
	co, node := ic.pick(req, opts)
	if node == nil {
		return errors.New("c19 inner client: no node left after select filters")
	}
	var call client.CallFunc = func(context.Context, *registry.Node, client.Request, interface{}, client.CallOptions) error {
		return ic.behave()
	}
	for i := len(co.CallWrappers); i > 0; i-- {
		call = co.CallWrappers[i-1](call)
	}
	return call(ctx, node, req, rsp, co)
}

func (ic *c19InnerClient) Stream(ctx context.Context, req client.Request, opts ...client.CallOption) (client.Stream, error) {
	_, node := ic.pick(req, opts)
	if node == nil {
		return nil, errors.New("c19 inner client: no node left after select filters")
	}
	if err := ic.behave(); err != nil {
		return nil, err
	}
	return &c19ClientStream{ctx: ctx, req: req}, nil
}

// ---- fake server side

// c19ServerRequest is a minimal hand-written server.Request.
type c19ServerRequest struct {
	service, method string
	stream          bool
}

func (r *c19ServerRequest) Service() string           { return r.service }
func (r *c19ServerRequest) Method() string            { return r.method }
func (r *c19ServerRequest) Endpoint() string          { return r.method }
func (r *c19ServerRequest) ContentType() string       { return "application/json" }
func (r *c19ServerRequest) Header() map[string]string { return map[string]string{} }
func (r *c19ServerRequest) Body() interface{}         { return "c19 req" }
func (r *c19ServerRequest) Read() ([]byte, error)     { return nil, nil }
func (r *c19ServerRequest) Codec() codec.Reader       { return nil }
func (r *c19ServerRequest) Stream() bool              { return r.stream }

// c19ServerStream is a minimal hand-written server.Stream recording Send calls.
type c19ServerStream struct {
	name string
	ctx  context.Context
	req  server.Request
	sent []interface{}
}

func (s *c19ServerStream) Context() context.Context { return s.ctx }
func (s *c19ServerStream) Request() server.Request  { return s.req }
func (s *c19ServerStream) Send(v interface{}) error { s.sent = append(s.sent, v); return nil }
func (s *c19ServerStream) Recv(interface{}) error   { return nil }
func (s *c19ServerStream) Error() error             { return nil }
func (s *c19ServerStream) Close() error             { return nil }

// ---- matrix

func TestVerifC19(t *testing.T) {
	c19Setup(t)
	for _, ep := range []string{
		"NewClientWrapper",
		"NewClientWrapper+outlier",
		"NewHandlerWrapper",
		"NewStreamWrapper",
		"NewClientWrapper.Stream",
		"NewClientWrapper.Stream+outlier", // last: mutates the global slot chain
	} {
		ep := ep
		c19Matrix(func(admitted, fallback bool, handler string) {
			c19MicroCase(t, ep, admitted, fallback, handler)
		})
	}
}

func c19LoadOutlierRule(t *testing.T, resource string) {
	// as in example/outlier/hello_micro: one outlier rule for the service
	if _, err := outlier.LoadRules([]*outlier.Rule{{
		Rule: &circuitbreaker.Rule{
			Resource:         resource,
			Strategy:         circuitbreaker.ErrorCount,
			RetryTimeoutMs:   3000,
			MinRequestAmount: 1,
			StatIntervalMs:   1000,
			Threshold:        1000.0, // never trips: node ejection is not the subject here
		},
		EnableActiveRecovery: false,
		MaxEjectionPercent:   1.0,
		RecoveryIntervalMs:   2000,
		MaxRecoveryAttempts:  5,
	}}); err != nil {
		t.Fatalf("driver set-up: outlier.LoadRules: %v", err)
	}
}

func c19MicroCase(t *testing.T, ep string, admitted, fallback bool, handler string) {
	c := &c19Case{
		Adapter:               "micro",
		EntryPoint:            ep,
		Resource:              c19Name(ep, admitted, fallback, handler),
		AdmittedExpected:      admitted,
		Fallback:              fallback,
		Handler:               handler,
		HandlerCanReturnError: true,
	}
	c19Rules(t, c.Resource, admitted)

	ctx := c19Ctx(context.Background())
	behave := func() error {
		c.handlerCalled()
		switch handler {
		case "errtyped":
			return merrors.BadRequest("c19", "c19 typed handler error")
		case "err":
			return c19ErrHandler
		case "panic":
			panic("c19 handler panic")
		}
		return nil
	}
	enableOutlier := WithEnableOutlier(func(context.Context) bool { return true })

	var err error
	switch ep {
	case "NewClientWrapper", "NewClientWrapper+outlier":
		inner := &c19InnerClient{behave: behave}
		req := &c19ClientRequest{service: "c19.service", method: "C19.Call/" + c.Resource}
		var opts []Option
		if ep == "NewClientWrapper+outlier" {
			// outlier mode: the adapter uses req.Service() as resource name
			req.service = c.Resource
			opts = append(opts, enableOutlier)
			c19LoadOutlierRule(t, c.Resource)
		} else {
			opts = append(opts, WithClientResourceExtractor(func(context.Context, client.Request) string { return c.Resource }))
		}
		if fallback {
			opts = append(opts, WithClientBlockFallback(func(context.Context, client.Request, *base.BlockError) error {
				c.fallbackCalled()
				return c19FbResult(handler)
			}))
		}
		wrapped := NewClientWrapper(opts...)(inner)
		c.EscapedPanic = c19Guard(func() { err = wrapped.Call(ctx, req, new(string)) })
		c.Response = c19ErrText(err)
		if !admitted && fallback {
			// the caller must get exactly what the fallback answered
			c.Body, c.FallbackBody, c.BodyChecked = c19ErrText(err), c19ErrText(c19FbResult(handler)), true
		}
		c.DefaultRejectionSeen = c19IsBlockErr(err)
		c.Notes = "wrapped.Call on a hand-made inner client.Client (applies select filters / call wrappers like rpcClient); handler = the inner client's remote call; " + inner.note

	case "NewClientWrapper.Stream", "NewClientWrapper.Stream+outlier":
		inner := &c19InnerClient{behave: behave}
		req := &c19ClientRequest{service: "c19.service", method: "C19.Stream/" + c.Resource, stream: true}
		var opts []Option
		if ep == "NewClientWrapper.Stream+outlier" {
			req.service = c.Resource
			opts = append(opts, enableOutlier)
			c19LoadOutlierRule(t, c.Resource)
		} else {
			opts = append(opts, WithStreamClientResourceExtractor(func(context.Context, client.Request) string { return c.Resource }))
		}
		if fallback {
			opts = append(opts, WithStreamClientBlockFallback(func(context.Context, client.Request, *base.BlockError) (client.Stream, error) {
				c.fallbackCalled()
				return nil, c19FbResult(handler)
			}))
		}
		wrapped := NewClientWrapper(opts...)(inner)
		var cs client.Stream
		c.EscapedPanic = c19Guard(func() { cs, err = wrapped.Stream(ctx, req) })
		c.Response = c19ErrText(err)
		if !admitted && fallback {
			// the caller must get exactly what the fallback answered
			c.Body, c.FallbackBody, c.BodyChecked = c19ErrText(err), c19ErrText(c19FbResult(handler)), true
		}
		c.DefaultRejectionSeen = c19IsBlockErr(err)
		c.Notes = fmt.Sprintf("wrapped.Stream on a hand-made inner client.Client; handler = the inner client's stream open; returned_stream_nil=%t; %s", cs == nil, inner.note)

	case "NewHandlerWrapper":
		req := &c19ServerRequest{service: "c19.service", method: "C19.Handle/" + c.Resource}
		opts := []Option{WithServerResourceExtractor(func(context.Context, server.Request) string { return c.Resource })}
		if fallback {
			opts = append(opts, WithServerBlockFallback(func(context.Context, server.Request, *base.BlockError) error {
				c.fallbackCalled()
				return c19FbResult(handler)
			}))
		}
		h := NewHandlerWrapper(opts...)(func(context.Context, server.Request, interface{}) error {
			return behave()
		})
		c.EscapedPanic = c19Guard(func() { err = h(ctx, req, new(string)) })
		c.Response = c19ErrText(err)
		if !admitted && fallback {
			// the caller must get exactly what the fallback answered
			c.Body, c.FallbackBody, c.BodyChecked = c19ErrText(err), c19ErrText(c19FbResult(handler)), true
		}
		c.DefaultRejectionSeen = c19IsBlockErr(err)
		c.Notes = "wrapped server.HandlerFunc called directly; handler = the inner server.HandlerFunc"

	case "NewStreamWrapper":
		// Options passed: only the stream-server ones (the ones documented for
		// this entry point). The stream's request method differs from the resource
		// name, so the resource extractor has to be honoured.
		orig := &c19ServerStream{name: "orig", ctx: ctx,
			req: &c19ServerRequest{service: "c19.service", method: "C19.Stream", stream: true}}
		fbStream := &c19ServerStream{name: "fallback", ctx: ctx, req: orig.req}
		opts := []Option{WithStreamServerResourceExtractor(func(server.Stream) string { return c.Resource })}
		if fallback {
			opts = append(opts, WithStreamServerBlockFallback(func(server.Stream, *base.BlockError) server.Stream {
				c.fallbackCalled()
				return fbStream
			}))
		}
		wrapper := NewStreamWrapper(opts...)
		var returned server.Stream
		var herr error
		handlerRan := false
		c.EscapedPanic = c19Guard(func() {
			returned = wrapper(orig)
			// a server applying a StreamWrapper hands the returned stream to
			// the stream handler; the wrapper signature cannot refuse the call
			handlerRan = true
			herr = behave()
		})
		which := "other"
		switch returned {
		case nil:
			which = "nil"
		case server.Stream(orig):
			which = "orig"
		case server.Stream(fbStream):
			which = "fallback"
		}
		sentBlock := false
		sent := ""
		for i, v := range orig.sent {
			if i > 0 {
				sent += ","
			}
			sent += fmt.Sprintf("%T(%v)", v, v)
			if _, ok := v.(*base.BlockError); ok {
				sentBlock = true
			}
		}
		c.Response = fmt.Sprintf("returned_stream=%s; sent_on_orig_stream=[%s]; handler_ran=%t handler_ret=%s", which, sent, handlerRan, c19ErrText(herr))
		c.DefaultRejectionSeen = sentBlock
		c.Notes = "options passed: WithStreamServerResourceExtractor (+ WithStreamServerBlockFallback when fallback=true) only; stream.Request().Method() differs from the resource; wrapper(stream) called directly, then the driver runs the stream handler unconditionally (as a server would, the StreamWrapper signature cannot refuse the call): handler_calls does not tell whether the adapter admitted; default_rejection_seen = a *base.BlockError was Send()-ed on the stream; configured fallback returns a distinct fake stream"
	}

	if ep == "NewClientWrapper+outlier" {
		c.Notes += "; outlier mode: WithEnableOutlier(true) + one outlier rule for the resource (= req.Service()); the adapter enters on a private slot chain (BuildDefaultSlotChain), which the recorder on the global slot chain does not see; " + c19NodeCounters(c.Resource)
	}
	if ep == "NewClientWrapper.Stream+outlier" {
		c.Notes += "; outlier mode: WithEnableOutlier(true) + one outlier rule for the resource (= req.Service()); the adapter enters on the GLOBAL slot chain after adding the outlier slots to it; " + c19NodeCounters(c.Resource)
	}
	c19Finish(t, c)
}

func init() { c19UsesCtx = true }

// c19FbResult is what the configured fallback answers: an error of its own, or nil (graceful degradation: the
// caller is served something else and must not see a rejection) - the handler dimension is free on the blocked path.
func c19FbResult(handler string) error {
	if handler == "ok" {
		return nil
	}
	return c19ErrFallback
}
