#!/bin/bash
# Runs every C19 adapter driver through a build overlay (nothing is copied into
# /repo) and prints the C19CASE lines. Usage: run_all.sh [adapter ...]
export GOFLAGS=-mod=mod GOPROXY=off GOSUMDB=off GOTOOLCHAIN=local
HERE="$(cd "$(dirname "$0")" && pwd)"
ADAPTERS=("$@")
[ ${#ADAPTERS[@]} -eq 0 ] && ADAPTERS=(echo fiber gear gin go-zero goframe grpc iris kratos micro)
for X in "${ADAPTERS[@]}"; do
  echo "{\"Replace\":{\"/repo/pkg/adapters/$X/zz_verif_c19_test.go\":\"$HERE/$X/zz_verif_c19_test.go\"}}" > /tmp/ov$X.json
  out=$(cd /repo/pkg/adapters/$X && timeout 60 go test -overlay /tmp/ov$X.json -vet=off -count=1 -run '^TestVerifC19$' -v . 2>&1)
  rc=$?
  echo "$out" | grep '^C19CASE '
  echo "# $X: rc=$rc lines=$(echo "$out" | grep -c '^C19CASE ')" >&2
done
