#!/bin/bash
# Re-inserts _common/c19_common.go.txt between the C19 COMMON markers of every
# driver file, so that each driver stays self-contained (each adapter is its own
# Go module, nothing can be shared by import).
cd "$(dirname "$0")/.." || exit 1
for f in */zz_verif_c19_test.go; do
python3 - "$f" <<'PY'
import sys,re
p=sys.argv[1]
s=open(p).read()
c=open('_common/c19_common.go.txt').read()
b='// >>> C19 COMMON BEGIN (generated from _common/c19_common.go.txt by _common/sync.sh)\n'
e='\n// <<< C19 COMMON END\n'
i=s.find('// >>> C19 COMMON BEGIN'); j=s.find('// <<< C19 COMMON END')
if i<0 or j<0:
    print('no markers in',p); sys.exit(0)
j_end=s.index('\n',j)+1
i_end=s.index('\n',i)+1
s=s[:i]+b+c+e+s[j_end:]
open(p,'w').write(s)
print('synced',p)
PY
done
