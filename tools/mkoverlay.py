#!/usr/bin/env python3
"""Regenerate the build overlay from /repo's *current* working tree.

usage: mkoverlay.py <outdir> [--repo /repo]

Writes <outdir>/overlay.json mapping
  * every non-test .go file of the instrumented packages to a copy whose imports of
    "sync", "sync/atomic" (and "runtime" where it is only used for Gosched) point to the
    shim packages,
  * the shim packages as virtual directories /repo/verifshim/<name>/,
  * /verif/export/<dir with / replaced by __>.go as an extra file zz_verif_export.go in that
    package directory (read/reset accessors, build tag verif).
Nothing under /repo is written.
"""
import json
import os
import re
import sys

VERIF = os.path.dirname(os.path.dirname(os.path.abspath(__file__)))
MOD = "github.com/alibaba/sentinel-golang"

# packages whose synchronisation is instrumented
INSTRUMENT_DIRS = [
    "api",
    "core/base",
    "core/stat",
    "core/stat/base",
    "core/flow",
    "core/isolation",
    "core/hotspot",
    "core/hotspot/cache",
    "core/circuitbreaker",
    "core/system",
    "core/outlier",
    "ext/datasource/file",
]

REWRITE = {
    '"sync"': '"%s/verifshim/vsync"' % MOD,
    '"sync/atomic"': '"%s/verifshim/vatomic"' % MOD,
}
RUNTIME = '"%s/verifshim/vruntime"' % MOD
VTIME = '"%s/verifshim/vtime"' % MOD
# files whose "time" import is replaced by the virtual-timer shim
VTIME_FILES = {"core/outlier/recycler.go", "core/outlier/retryer.go"}
# files whose fsnotify import is replaced by the injected-event watcher
VFSNOTIFY = '"%s/verifshim/vfsnotify"' % MOD
VFSNOTIFY_FILES = {"ext/datasource/file/refreshable_file.go"}

IMPORT_LINE = re.compile(r'^(\s*)((?:[A-Za-z_][A-Za-z0-9_]*\s+)?)("[^"]+")\s*$')
SINGLE_IMPORT = re.compile(r'^import\s+((?:[A-Za-z_][A-Za-z0-9_]*\s+)?)("[^"]+")\s*$')


def rewrite_source(src, vtime=False, vfsnotify=False):
    """returns (new_src, n_rewritten)"""
    lines = src.split("\n")
    only_gosched = True
    for m in re.finditer(r'\bruntime\.([A-Za-z]+)', src):
        if m.group(1) != "Gosched":
            only_gosched = False
    n = 0
    in_block = False
    for i, line in enumerate(lines):
        s = line.strip()
        if s.startswith("import ("):
            in_block = True
            continue
        if in_block:
            if s == ")":
                in_block = False
                continue
            m = IMPORT_LINE.match(line)
            if not m:
                continue
            indent, alias, path = m.groups()
        else:
            m = SINGLE_IMPORT.match(line)
            if not m:
                # imports are over once the first declaration starts
                if s.startswith(("func ", "type ", "var ", "const ")):
                    break
                continue
            indent, alias, path = "import ", m.group(1), m.group(2)
        new = None
        if path in REWRITE:
            new = REWRITE[path]
            # keep the package name the file expects
            if not alias:
                alias = "sync " if path == '"sync"' else "atomic "
        elif path == '"runtime"' and only_gosched and "runtime.Gosched" in src:
            new = RUNTIME
            if not alias:
                alias = "runtime "
        elif path == '"time"' and vtime:
            new = VTIME
            if not alias:
                alias = "time "
        elif path == '"github.com/fsnotify/fsnotify"' and vfsnotify:
            new = VFSNOTIFY
            if not alias:
                alias = "fsnotify "
        if new:
            lines[i] = "%s%s%s" % (indent, alias, new)
            n += 1
    return "\n".join(lines), n


def main():
    if len(sys.argv) < 2:
        print(__doc__)
        sys.exit(2)
    out = os.path.abspath(sys.argv[1])
    repo = "/repo"
    if "--repo" in sys.argv:
        repo = os.path.abspath(sys.argv[sys.argv.index("--repo") + 1])
    # calibration only (tools/mutate.py): --mutant <rel>=<file> reads the source of /repo/<rel> from <file>
    # instead, so that a changed copy can be checked without writing into /repo
    mutant = {}
    for i, a in enumerate(sys.argv):
        if a == "--mutant":
            rel, path = sys.argv[i + 1].split("=", 1)
            mutant[os.path.join(repo, rel)] = path
    os.makedirs(out, exist_ok=True)
    replace = {}
    nfiles = 0
    nrew = 0
    for d in INSTRUMENT_DIRS:
        full = os.path.join(repo, d)
        if not os.path.isdir(full):
            continue
        for fn in sorted(os.listdir(full)):
            if not fn.endswith(".go") or fn.endswith("_test.go"):
                continue
            p = os.path.join(full, fn)
            with open(mutant.get(p, p), encoding="utf-8") as f:
                src = f.read()
            rel = d + "/" + fn
            if d == "ext/datasource/file" and rel not in VFSNOTIFY_FILES:
                continue
            new, n = rewrite_source(src, vtime=rel in VTIME_FILES, vfsnotify=rel in VFSNOTIFY_FILES)
            if n == 0 and p not in mutant:
                continue
            dst = os.path.join(out, "src", d, fn)
            os.makedirs(os.path.dirname(dst), exist_ok=True)
            old = None
            if os.path.exists(dst):
                with open(dst, encoding="utf-8") as f:
                    old = f.read()
            if old != new:
                with open(dst, "w", encoding="utf-8") as f:
                    f.write(new)
            replace[p] = dst
            nfiles += 1
            nrew += n
    # shim packages
    shim = os.path.join(VERIF, "shim")
    for name in sorted(os.listdir(shim)):
        sd = os.path.join(shim, name)
        if not os.path.isdir(sd):
            continue
        for fn in sorted(os.listdir(sd)):
            if fn.endswith(".go"):
                replace[os.path.join(repo, "verifshim", name, fn)] = os.path.join(sd, fn)
    # accessor files
    exp = os.path.join(VERIF, "export")
    for fn in sorted(os.listdir(exp)):
        if not fn.endswith(".go"):
            continue
        pkgdir = fn[:-3].replace("__", "/")
        target_dir = os.path.join(repo, pkgdir)
        if not os.path.isdir(target_dir):
            print("mkoverlay: accessor %s has no package dir %s" % (fn, target_dir), file=sys.stderr)
            continue
        replace[os.path.join(target_dir, "zz_verif_export.go")] = os.path.join(exp, fn)
    for p, path in mutant.items():
        replace.setdefault(p, path)
    ov = os.path.join(out, "overlay.json")
    tmp = ov + ".tmp%d" % os.getpid()
    with open(tmp, "w") as f:
        json.dump({"Replace": replace}, f, indent=1, sort_keys=True)
    os.replace(tmp, ov)
    print("mkoverlay: %d files rewritten (%d imports), overlay %s" % (nfiles, nrew, ov))


if __name__ == "__main__":
    main()
