#!/bin/sh
# usage: seed_pipeline.sh <Cnn> <name-suffix> [extra props...]  : confirm, keep and try one sub-agent change
id=$1; name=$2; shift 2
cd /verif
python3 tools/seeded.py confirm /tmp/out-$id > /tmp/confirm-$id.json 2>&1
ok=$(python3 -c "import json,sys;print(json.load(open('/tmp/confirm-$id.json'))['ok'])" 2>/dev/null)
echo "confirm $id: $ok"
if [ "$ok" != "True" ]; then tail -30 /tmp/confirm-$id.json; exit 1; fi
python3 tools/seeded.py keep /tmp/out-$id $id-$name
cp /tmp/confirm-$id.json seeded/$id-$name/confirmation.json
python3 tools/seeded.py try $id-$name "$@" | tee seeded/$id-$name/detection.json | python3 -c "
import json,sys
d=json.load(sys.stdin)
for p,r in d['results'].items(): print(p, 'VIOLATION' if r['violation'] else 'missed', r['signatures'], r['summary'][-120:])
"
