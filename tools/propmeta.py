"""Static per-property metadata used by bin/vcheck when it writes evidence files."""

A_SHIM = "shim semantics: sync/atomic and lock operations are sequentially consistent (Go memory model for race-free programs); scheduling points are exactly the sync/atomic, sync.Mutex/RWMutex/Once/Pool and runtime.Gosched operations of the instrumented packages"
A_CLOCK = "time is the harness's virtual clock installed through util.SetClock; nothing reads the wall clock"
A_OVERLAY = "the code under test is /repo's working tree at check time, compiled with the import-rewriting overlay (tools/mkoverlay.py); accessor files only read or reset private state"

META = {
    "C09": {
        "level": "model_checking",
        "rule": "every scenario = geometry (N buckets, bucket length, boundary) x thread programs (1-2 of add/count/values at timestamps on both sides of the boundary); for each scenario ALL interleavings at atomic-access granularity are enumerated by stateless DFS with global-state-key pruning; an outcome is non-trivial/distinct by its vector of per-read results plus final per-bucket contents",
        "assumptions": [A_SHIM, A_OVERLAY, "2-3 threads, at most 2 operations each; operation timestamps within one bucket length of each other (the property's premise)"],
        "budget_quick": 240,
        "budget_thorough": 1200,
        "text": "Exhaustive enumeration of thread interleavings of the real BucketLeapArray code at the granularity of individual atomic accesses: every 2-thread scenario (<=2 operations per thread, timestamps on both sides of a bucket / cycle boundary, 3-5 geometries) is explored completely (all interleavings, fair scheduling of the TryLock/Gosched spin); 3-thread scenarios are explored to a preemption bound (quick) or completely / to bound 3 (thorough). Each execution is judged by an oracle that decodes every reported sum into the individual recorded amounts.",
        "level_note": "Bounded: 2-3 goroutines, <=2 operations each, sequentially consistent atomics (Go's sync/atomic contract). Plain (non-atomic) memory races are outside this check (C15 runs the race detector). The 'randomized large-scale stress' of the quantifier text is sampling and is deliberately not part of the deciding step.",
        "technique": "stateless model checking of the implementation: controlled scheduler + DFS over all interleavings (state-key pruning, shared-location POR, fair scheduling, preemption bounding for 3 threads)",
    },
}

META["C08"] = {
    "level": "model_checking",
    "rule": "breadth-first search over all operation histories (add of each event kind/amount, update-concurrency, clock advances by 1 / bucket-1 / bucket / bucket+1 / interval-1 / interval / interval+1 / >3 intervals, refreshing array reads) up to the depth bound, per array geometry and creation time (near zero, aligned, unaligned); after EVERY transition every getter of EVERY constructible view and of BaseStatNode is compared with the aligned-bucket reference; states are deduplicated on (implementation bucket dump relative to now, reference aggregates, clock phase); a distinct outcome = scenario + vector of values the implementation returned",
    "assumptions": [A_CLOCK, A_OVERLAY, "single goroutine (concurrency is C09)", "documented conventions mirrored: BaseStatNode.AvgRT integer average, MinRT floor 1 ms / default 60000, AvgRT of an empty window not compared, GetPreviousQPS compared only for views shorter than the array by one view bucket"],
    "budget_quick": 240,
    "budget_thorough": 1200,
    "text": "Explicit-state exploration of the real BucketLeapArray / SlidingWindowMetric / BaseStatNode code against a list-of-events reference: all histories to the depth bound over 5 (quick) / 10 (thorough) geometries x 4 creation times, plus the complete table of view constructibility against 'tiles the buckets exactly'.",
    "level_note": "Bounded depth (5 quick / 7 thorough) and finite alphabets chosen from the code's boundary constants; unbounded time and histories are not covered.",
    "technique": "explicit-state BFS over operation sequences on the implementation with reference-model comparison on every transition",
}

META["C02"] = {
    "level": "model_checking",
    "rule": "sequential: per configuration (statistics geometry x rule set: thresholds 0/0.5/1/2/2.5/3 x statistic-interval kinds default / reused views / whole array / standalone windows shorter, unaligned and longer than the array; two rules in both orders; associated-resource rules) a BFS over all histories of requests (batch 1/2/4 on the guarded and the referenced resource) and clock advances (1, bucket+-1, window+-1, array, array+1, >3 arrays) to the depth bound through the real api.Entry; every decision, TriggeredRule and TriggeredValue is compared with the admitted-token reference; concurrent: ALL interleavings of 2-3 callers x 1-2 requests at admission-path granularity (scheduling points only at request start and between the rule-check and statistic phases); distinct outcome = configuration + decision/value vector",
    "assumptions": [A_CLOCK, A_OVERLAY, "the bucket length of a rule's window follows the documented policy of generateStatFor (mirrored in the reference as a function of the interval and the global geometry)", "concurrent clause: clock frozen, scaled geometry (4 x 10 ms array)"],
    "budget_quick": 240,
    "budget_thorough": 1200,
    "text": "Explicit-state exploration of arrival histories through the real entry path against an exact reference (both directions: no over-admission, no spurious rejection, reported rule and value), plus exhaustive admission-path interleavings of k concurrent callers with the (k-1)*maxBatch excess bound.",
    "level_note": "Bounded depth (6/8 on the scaled geometry, 4/6 on the default 20 x 500 ms geometry) and finite grids; admission-path (not atomic-access) granularity for the concurrent clause, as the property states.",
    "technique": "explicit-state BFS over operation sequences + exhaustive interleaving enumeration under a controlled scheduler, both on the implementation",
}

META["C04"] = {
    "level": "model_checking",
    "rule": "sequential: per rule set (thresholds 0,1,2,3,2^32-1; one or two rules on a resource in both orders; a second resource) BFS over all histories of Entry(resource, batch in {1,2,N,N+1,2^31,2^32-2,2^32-1}) and Exit of any live entry (<=4 live) to the depth bound; every decision, TriggeredRule/Value and the in-flight gauge are compared with an unbounded-integer reference; concurrent: ALL interleavings of 2-3 callers x 1-2 entries at admission-path granularity (points at request start, between check and statistic phase, before each exit), entries exited at once or held to the end; distinct outcome = configuration + decision vector + peak in-flight",
    "assumptions": [A_CLOCK, A_OVERLAY],
    "budget_quick": 240,
    "budget_thorough": 600,
    "text": "Explicit-state exploration of entry/exit histories through the real api.Entry against an exact in-flight reference, and exhaustive admission-path interleavings of k callers with the N+(k-1) bound and decision-by-gauge-at-check oracle.",
    "level_note": "Bounded depth (7 quick / 9 thorough), at most 4 live entries, 2 resources; admission-path granularity for the concurrent clause as the property states.",
    "technique": "explicit-state BFS over operation sequences + exhaustive interleaving enumeration under a controlled scheduler, on the implementation",
}

META["C01"] = {
    "level": "model_checking",
    "rule": "sequential: BFS over all histories (to the depth bound, <=3 entry slots, pool-miss deviations <=1) of Entry(resource outbound r1 / inbound r2, batch 1/3, args none/[A]/[B]/[unhashable value that makes the hotspot rule check panic], custom-chain flags that make a prepare / rule-check slot panic), TraceError(slot) on live and exited entries, Exit(slot), Exit(slot, WithError), repeated Exit, clock advances 7/600 ms, on the global chain and on a custom chain with a recording statistic slot; after EVERY operation: gauge of every node = ledger in-flight, all five window sums of r1, r2 and the inbound node = ledger, every live entry's error / args / resource / batch are its own, recording slot heard exactly the expected callbacks; concurrent: all schedules with <=1 (quick) / <=2 (thorough) preemptions of 2 threads Entry->[TraceError]->Exit at atomic-access granularity; distinct outcome = chain + answer vector",
    "assumptions": [A_CLOCK, A_OVERLAY, A_SHIM, "sync.Pool is modelled as a LIFO free list; a pool miss (GC, other P) is an explicit environment answer with a deviation budget of 1", "panics inside user statistic slots / exit handlers are outside the domain (property text)", "an entry during whose admission an internal panic was contained carries that panic as its error (implementation convention, mirrored)"],
    "budget_quick": 240,
    "budget_thorough": 1200,
    "text": "Explicit-state exploration of entry lifecycles through the real api.Entry / TraceError / Exit against a ledger and the window reference, including pool reuse between different entries, late and repeated calls and contained panics; plus preemption-bounded interleavings of two complete entry lifecycles.",
    "level_note": "Bounded depth (5 quick / 7 thorough), three entry slots, two resources; concurrent clause limited to 2 threads and 1-2 preemptions.",
    "technique": "explicit-state BFS over operation sequences with ledger/reference comparison + preemption-bounded schedule enumeration, on the implementation",
}

META["C06"] = {
    "level": "model_checking",
    "rule": "sequential: per rule configuration (general threshold 0/1/2, specific items A->0/1, B->2, value selected by index 0, index -1 or attachment key, second resource with its own rule) BFS over all histories of Entry(resource, value A/B/none) and Exit of any live entry (<=4 live, pool-miss deviations <=1) to the depth bound; every decision is compared with 'live(v) < threshold(v)', the per-value counters read through an accessor are compared with the true live count after EVERY operation, and each live entry's context must still carry the value it was admitted with; concurrent: all schedules with <=1 (quick) / <=2 (thorough) preemptions of 2-3 threads Entry(v)->Exit at atomic-access granularity with conservation bounds at every probe and zero at the end",
    "assumptions": [A_CLOCK, A_OVERLAY, A_SHIM, "sync.Pool modelled as LIFO with an explicit miss answer (budget 1)", "under concurrency only conservation is asserted (the statement gives no k-1 allowance for the check-then-record window)"],
    "budget_quick": 240,
    "budget_thorough": 900,
    "text": "Explicit-state exploration of per-value entry/exit histories through the real api.Entry with the private per-value counters observed after every step, plus preemption-bounded interleavings of concurrent lifecycles.",
    "level_note": "Bounded depth (7 quick / 9 thorough), two values, two resources, capacity never exceeded.",
    "technique": "explicit-state BFS over operation sequences with reference comparison + preemption-bounded schedule enumeration, on the implementation",
}

META["C03"] = {
    "level": "model_checking",
    "rule": "per breaker configuration (3 strategies x thresholds {0,0.5,1} / {1,2,1.5} x minimum amount {0,2,3} x retry timeout {5,10} x window (10 ms/1 bucket, 20/2, 20/3->1) x probe number {0,1,2}; four two-breaker lists) a BFS over all histories of start / done(slot, ok|err) / clock advances {1,4,retry-1,retry,bucket,interval,interval+1} (<=3 requests in flight, slow = virtual duration > 3 ms) to the depth bound through the real api.Entry; after EVERY operation the decision and TriggeredRule, the listener callbacks of that operation and every breaker's private state are compared with a three-state reference machine; distinct outcome = configuration + operation + answer + callbacks",
    "assumptions": [A_CLOCK, A_OVERLAY, "single goroutine (concurrency is C12)", "while half-open with a probe number > 0 every request is admitted as a probe (the code's documented ProbeNum semantics)", "completions recorded while open cannot influence a later decision (statistics are cleared on close), so the reference records them too"],
    "budget_quick": 240,
    "budget_thorough": 1500,
    "text": "Explicit-state exploration of time-stamped request histories through the real entry path against a reference state machine, with listener log and private breaker state compared on every transition.",
    "level_note": "Bounded depth (7 quick / 10 thorough; 6 / 8 with two breakers), finite configuration grid, <=3 requests in flight.",
    "technique": "explicit-state BFS over operation sequences on the implementation with reference state machine comparison",
}

META["C12"] = {
    "level": "model_checking",
    "rule": "scenario = strategy (3) x initial breaker state (closed / open with the timeout elapsed / freshly open / half-open, reached sequentially on a real breaker installed by LoadRules) x probe number x thread programs (2-3 threads, 1-2 steps each of failing completion, successful completion, TryPass, clock tick of one retry timeout / 1 ms); for each scenario ALL interleavings at atomic-access granularity are enumerated (stateless DFS, global state key, shared-location reduction, fair scheduling); oracle per execution: multiset of listener callbacks = multiset of successful writes to the state word (observed by the shim, with previous value), the writes form a legal path, no Open->HalfOpen earlier than a full retry timeout after the write that opened the breaker (virtual clock at the write itself), every TryPass answer justified by the state value it loaded and by whether it won the probe transition; distinct outcome = scenario + write sequence + answers",
    "assumptions": [A_SHIM, A_CLOCK, A_OVERLAY, "breaker driven directly through TryPass / OnRequestComplete (the calls the slots make)"],
    "budget_quick": 240,
    "budget_thorough": 900,
    "text": "Exhaustive enumeration of all interleavings of 2-3 threads around every breaker transition on the real code, judged against the ground-truth sequence of state-word writes.",
    "level_note": "2-3 threads, 1-2 steps each, at most 2 clock ticks; sequentially consistent atomics.",
    "technique": "stateless model checking of the implementation under a controlled scheduler (all interleavings, state-key pruning, POR)",
}

META["C10"] = {
    "level": "model_checking",
    "rule": "sequential: per configuration (threshold 0/0.5/1/2/3/1000 x interval 1000 ms/10 ms/default x max queueing 0/1/500/1000 ms x sleep advances the clock or not) BFS over all arrival histories (requests of batch 1/2, clock advances of 1 ns, half / one-less / exactly / one-more / three spacings, the queueing limit +-1 ns) to the depth bound through api.Entry; pass time = arrival + requested sleep; oracle: spacing to the previous pass time >= batch*interval/threshold (exact), wait <= limit, every rejection justified; concurrent: ALL interleavings of 2-4 threads calling ThrottlingChecker.DoCheck (1-2 calls each) with clock ticks as thread steps at atomic-access granularity; oracle on the sorted pass times (arrival = the value the call itself read from the clock), waits, and rejections justified under some linearisation; distinct outcome = configuration + answer vector",
    "assumptions": [A_SHIM, A_CLOCK, A_OVERLAY, "the required spacing is rounded up to whole nanoseconds when a rejection is judged (time is in ns)"],
    "budget_quick": 240,
    "budget_thorough": 900,
    "text": "Explicit-state exploration of nanosecond arrival histories through the real entry path, plus exhaustive interleavings of concurrent DoCheck callers and clock ticks on the real checker.",
    "level_note": "Bounded depth (7 quick / 10 thorough); concurrent clause: 2-4 threads, <=2 calls each, <=2 ticks, sequentially consistent atomics.",
    "technique": "explicit-state BFS over operation sequences + stateless model checking of all interleavings under a controlled scheduler, on the implementation",
}

META["C11"] = {
    "level": "exploration",
    "rule": "warm-up: per configuration (threshold 0/0.5/1/2/3/5/10/100 x period 1/2/5/10 s x cold factor default/2/3/5/10) BFS over all demand programs built from {burst of ceil(T)+3 simultaneous requests, steady 1 req/100 ms for 1 s, idle 1 s, idle until certainly cold, saturating demand for 2*period+3 s, patient single-token demand for period+2 s} to the depth bound, through api.Entry in virtual time; oracles on every request (effective threshold finite, >= 0, <= configured; admitted tokens per aligned window <= threshold) and per program step (cold burst <= ceil(T/cold)+1, last second of saturation >= floor(T), patient demand not starved when T >= 1); memory-adaptive: exhaustive grid of rules x memory readings around both water marks, calculator value and the number of requests really admitted; distinct = configuration + answers",
    "assumptions": [A_CLOCK, A_OVERLAY, "'about threshold/coldFactor' is read as <= ceil(threshold/coldFactor)+1 admitted at once; 'after sustained demand for the warm-up period' is judged after 2*period+3 s of saturating demand (generous on purpose)"],
    "budget_quick": 240,
    "budget_thorough": 900,
    "text": "Bounded exhaustive exploration of demand programs against envelope inequalities (no exact reference exists for the warm-up curve), plus an exhaustive finite grid for the memory-adaptive interpolation.",
    "level_note": "Envelope oracles only; depth 4 (quick) / 6 (thorough) programs over 6 demand primitives.",
    "technique": "explicit-state BFS over demand programs on the implementation with envelope oracles; exhaustive grid enumeration",
}

META["C05"] = {
    "level": "exploration",
    "rule": "four configuration families (F1 reject: threshold 0-3 x burst 0-2 x duration 1-2 s x specific item none / A->0 / A->5; F2 throttling: threshold 1/2/3/1500 x duration x max queueing 0/1/500/1000 ms x sleep answer; F3 argument selection by index 0/1/-1/-3/5 or attachment key with string / int / bool / float / struct values; F4 capacity 1-2 below the number of values); per configuration BFS over all multi-value arrival histories (requests for 2-6 values with batch 1/2, requests without the selected argument, clock advances 1/399/500/999/1000/1001/2001 ms) to the depth bound through api.Entry; oracles: envelope inequalities per value (long-run, per-duration, idle-value grant, spacing in exact integer arithmetic, wait < limit), requests without the argument never limited, and a DIFFERENTIAL independence oracle: every request is mirrored on a private resource with the same rule that only ever sees that value and both decisions and waits must agree; distinct = configuration + answer vector",
    "assumptions": [A_CLOCK, A_OVERLAY, "NaN float keys and unhashable arguments are outside the alphabet (C01 covers the panic path)", "with capacity below the number of live values only per-request bounds are asserted (the statement conditions independence on capacity)"],
    "budget_quick": 240,
    "budget_thorough": 1200,
    "text": "Bounded exhaustive exploration of multi-value histories with envelope and differential oracles (the hotspot token algorithm has no exact reference in the statement).",
    "level_note": "Envelope oracles; depth 6 quick / 8 thorough; finite configuration grid.",
    "technique": "explicit-state BFS over operation sequences on the implementation with envelope and differential (two-instance) oracles",
}

META["C13"] = {
    "level": "model_checking",
    "rule": "per rule module (flow, isolation, hotspot, circuit breaker, system, outlier) BFS over all sequences to the depth bound of LoadRules(list) / LoadRulesOfResource(res, list) / ClearRules / ClearRulesOfResource / identical reload, where list ranges over a catalogue of 13-29 lists built from 3 valid rules on resource a, one on b, ONE INVALID VARIANT PER CLAUSE of the module's IsValidRule and nil elements, every call with freshly allocated objects; after every operation the getters are compared with 'valid rules of the most recent load per resource, in order' (validity decided by the module's own exported IsValidRule); after the last operation of every path each resource is probed with traffic (batches / values / failing requests chosen so that any enforced rule, valid or not, shows through TriggeredRule); distinct = module + answers",
    "assumptions": [A_CLOCK, A_OVERLAY, "rules whose Resource differs from the res argument of a per-resource load are outside the alphabet", "outlier: getters only (its enforcement is exercised by C20)", "probes run only after the last operation of a path, so they never disturb a successor state"],
    "budget_quick": 240,
    "budget_thorough": 900,
    "text": "Explicit-state exploration of load/clear sequences on the real rule managers against a reference of the statement, with getters checked on every transition and enforcement probed in every reached state.",
    "level_note": "Depth 3 (quick) / 4 (thorough) operations over 20-50 operations per module; finite catalogue of rule lists.",
    "technique": "explicit-state BFS over operation sequences on the implementation with reference comparison and terminal probes",
}

META["C14"] = {
    "level": "exploration",
    "rule": "metamorphic enumeration: for each subject rule kind with runtime state (flow reject with a standalone window, flow throttling, flow warm-up, circuit breaker open / half-open, hotspot QPS tokens, hotspot concurrency counters) x every initial list x EVERY traffic history over the subject's alphabet up to the depth bound x EVERY position of a reload x every edit of the rest of the list (pure reload, other rule added before / after, other rule modified, third rule added, duplicate of the unchanged rule, a modified copy of it placed before / after it) x both load paths: the decision trace (decisions and requested waits) with the reload must equal the trace of the same history without it; plus count references for 'a modified rule with unchanged statistic parameters keeps its statistics'; distinct = subject + baseline trace",
    "assumptions": [A_CLOCK, A_OVERLAY, "the other rules of the list are permissive (thresholds around 1e9) so that they cannot change a decision themselves; duplicates / modified copies are only used for subjects where a fresh copy cannot be stricter than the aged rule"],
    "budget_quick": 240,
    "budget_thorough": 1200,
    "text": "Exhaustive metamorphic comparison of the implementation with itself over all bounded histories and reload positions.",
    "level_note": "History depth 5 (quick) / 6-7 (thorough); the subject alphabets are small (3-6 operations).",
    "technique": "bounded exhaustive enumeration of histories x reload positions x list edits on the implementation, differential (with / without reload) oracle",
}

META["C16"] = {
    "level": "exploration",
    "rule": "exhaustive enumeration of slot-chain programs: all chains of <=2 (quick) / <=3 (thorough) prepare slots, <=3 rule-check slots and <=2 / <=3 statistic slots, each slot with order value 0 or 1 (all collisions, insertion order recorded) and every behaviour (prepare: ok / panic; rule-check: nil / pass result / block with an own result / block by mutating the pooled result / panic; statistic: record / panic in OnEntryPassed / OnEntryBlocked / OnCompleted), with or without a panicking exit handler, followed by 0-2 entries on other chains that recycle the pooled context and result; the call log and the returned *BlockError (before and after the follow-up traffic) are compared with the statement; distinct = call log",
    "assumptions": [A_CLOCK, A_OVERLAY, "LIFO pool (the recycled context is really reused by the follow-up entries)", "after a panic only 'no panic reaches the caller and the request is admitted' is asserted (the statement says 'absent panics' for the callback clauses)"],
    "budget_quick": 240,
    "budget_thorough": 900,
    "text": "Complete enumeration of all small slot chains and slot behaviours on the real SlotChain / api.Entry / Exit.",
    "level_note": "Finite program space enumerated completely up to the stated chain sizes.",
    "technique": "bounded exhaustive enumeration of programs (slot chains x behaviours) executed on the implementation",
}

META["C15"] = {
    "level": "model_checking",
    "race": True,
    "rule": "scenario = pair (or triple) of API callers on the real global state: request (Entry [+TraceError] + Exit) on resource a or b || LoadRules / LoadRulesOfResource(a) / LoadRulesOfResource(c) / ClearRules / ClearRulesOfResource(a) / GetRules / GetRulesOfResource for flow, isolation, hotspot and circuit breaker; two writers; first use of a resource from two goroutines; statistics getters || traffic; system and outlier rule management; for each scenario ALL schedules with at most 2 (quick) / 3 (thorough; 2 for the three-thread scenarios) preemptions at the granularity of every sync/atomic, lock and pool operation are executed in a binary built with -race whose scheduler hand-off is invisible to the detector; oracle: no new race report during the execution, no panic / deadlock, racing request decided by the old or the new list of its own resource (never a mixture), requests on another resource unaffected; distinct = scenario + observation vector",
    "assumptions": [A_SHIM, A_CLOCK, A_OVERLAY, "Go's race detector is the oracle for unsynchronised plain-memory accesses in the explored schedules; it reports a given pair of stacks once per process, so a race violation is recorded on first sight and reproduced by vcheck --replay in a fresh process", "same-entry concurrent calls (two goroutines calling Exit on one entry) are outside the scenarios"],
    "budget_quick": 240,
    "budget_thorough": 1500,
    "text": "Systematic (not sampled) schedule enumeration of pairs of public API calls with the race detector judging every explored schedule, plus old-or-new atomicity of rule switches.",
    "level_note": "2 threads (3 in a few scenarios), preemption bound 2 / 3: not 'every schedule the runtime can produce'; for race-free executions Go's DRF-SC guarantee makes the sequentially consistent exploration faithful.",
    "technique": "preemption-bounded stateless model checking under a controlled scheduler, each schedule executed under the Go race detector",
}

META["C07"] = {
    "level": "model_checking",
    "rule": "per rule set (none; each of 13 single rules: inbound QPS trigger 0/1/2, concurrency 0/1/2, average RT 0/3/5, load 1.0 and CPU 0.5 with and without BBR; 5-9 pairs; 2 triples) BFS over all histories to the depth bound of inbound entry / outbound entry / exit of any live entry (<=3 live, response time = virtual time in flight) / clock advances 2, 4, 500, 1000 ms / injected load 1.0, 1.5 / injected CPU 0.5, 0.8, through api.Entry; every decision is compared with the statement's predicate evaluated on a ref/window model of the inbound aggregate (QPS, in-flight, integer average RT, peak completion rate x minimum RT); outbound must never be system-blocked; the reported rule must be one of the violated ones; distinct = rule set + operation + answer",
    "assumptions": [A_CLOCK, A_OVERLAY, "estimated capacity is read as at least one request (BBR never rejects the only request in flight), the upstream BBR rule", "which violated rule is REPORTED depends on Go map order and is only required to be a violated one", "BaseStatNode.AvgRT integer average mirrored"],
    "budget_quick": 240,
    "budget_thorough": 900,
    "text": "Explicit-state exploration of inbound/outbound histories and injected readings through the real entry path against the statement's predicate on an independent aggregate model.",
    "level_note": "Depth 6 (quick) / 8 (thorough); triggers chosen just around the values reachable within the bound.",
    "technique": "explicit-state BFS over operation sequences on the implementation with reference predicate comparison",
}

META["C20"] = {
    "level": "model_checking",
    "rule": "(1) exhaustive pairs: node count 2..33 (quick) / 2..65 (thorough) x every percentage k/m (m<=20), 0.1*j and 0.333.., 0.666.. as float64, all failing nodes' breakers open: size of the filter list vs floor(p*n) in exact rational arithmetic on the float64's exact value; (2) per configuration (percentage 0 / 0.34 / 0.5 / 0.67 / 1, passive or active recovery with a scripted health-check answer) BFS over all histories to the depth bound of request-to-node-j succeeds / fails (3 nodes), clock advance by the retry timeout / the recycle interval, firing the oldest due VIRTUAL timer (time.AfterFunc in recycler / retryer is replaced by a recorded timer), identical rule reload, reload with another percentage (whole-set and per-resource path), on a chain with the outlier slots; after every request the filter list (subset of rejecting nodes, size bound), the half-open list (= passively probed nodes) and every node's breaker state are compared with a per-node reference, and a fired recycle timer must not delete a node that completed successfully since it was scheduled; distinct = configuration + operation + lists; (3) Engine A: the recycle timer of a flagged node against the acknowledgement of a success on that node, all interleavings with <=3 preemptions at lock granularity: a success acknowledged while the node is known is not followed by its removal",
    "assumptions": [A_CLOCK, A_OVERLAY, "the two background consumers (recycler / retryer channels) are synchronised by a marker-task barrier after every request (no deadline)", "which of the rejecting nodes are filtered depends on Go map order; only membership and size are asserted", "active-recovery timers: the reference re-reads the breaker state after a reconnection (weaker oracle for that mode)"],
    "budget_quick": 240,
    "budget_thorough": 900,
    "text": "Exhaustive (n, p) grid with an exact-rational oracle plus explicit-state exploration of per-node success/failure histories with virtual timers.",
    "level_note": "Depth 6 (quick) / 8 (thorough), 3 nodes; node counts up to 33 / 65.",
    "technique": "exhaustive grid enumeration + explicit-state BFS over operation sequences (with virtual timer events) on the implementation",
}

META["C17"] = {
    "level": "fault_enumeration",
    "rule": "per configuration (file size limit 60 B = one line / 200 B = three lines / 1 MiB x file count limit 1/2/3) EVERY write history up to the depth bound over {second step +0 / +1 / +2 / +1 day} x {batch of 1 or 2 items} is executed on the real writer in memory-backed scratch space; on the resulting directory every single query (all [begin,end] over the written seconds +-1 x resource '' / A / B; from-time x max lines 1/2/100) on a fresh searcher and, for histories of length <=3, every pair (first query from a reduced set, second from the full set) on ONE searcher is compared with the retained accepted items (order, duplicates, field-exact); for histories up to the cut depth the last non-empty data file and, separately, its index file are truncated at EVERY byte offset and the reduced query set is re-run: no error, no panic, only written items, every range-query item whose line and index entry lie before the cut; distinct = configuration + file count + retained items",
    "assumptions": [A_CLOCK, "the metric log package is not instrumented (single goroutine)", "crash model: a prefix of the last data file or of its index file at any byte (not reordered or partially persisted pages across both files)", "resource names without the field separator or line breaks"],
    "budget_quick": 240,
    "budget_thorough": 1500,
    "text": "Exhaustive write histories on the real writer with exhaustive query sets, plus every truncation point of the newest data and index file.",
    "level_note": "Write depth 3 (quick) / 5 (thorough); cut points for histories up to depth 2 / 3.",
    "technique": "bounded exhaustive enumeration of write histories x queries, and exhaustive enumeration of truncation offsets, on the implementation",
}

META["C18"] = {
    "level": "exploration",
    "rule": "per rule handler (flow, system, circuit breaker, hotspot, isolation) BFS over all delivery sequences to the depth bound over {three valid arrays of 1-2 rules in the wire format (one containing an invalid rule), [], empty payload, [null], [valid,null], [1], [\"x\"], {}, null, wrongly typed field, rules pre-loaded through the API}; in every reached state EVERY proper prefix of a valid two-rule payload (200-500 truncated JSON texts) is delivered as a one-step probe; oracle: never a panic; undecodable => error and rules unchanged; decodable => getters equal the valid rules of the payload (validity by the module's IsValidRule); empty => cleared; plus the wire round trip of each module and, for the file datasource, every sequence (depth 3/4) of write / truncate / chmod / atomic replace / rename-away / remove events injected through a fake fsnotify watcher with rendez-vous barriers; distinct = handler + answer",
    "assumptions": [A_CLOCK, A_OVERLAY, "decodability is decided by encoding/json on the module's wire type (the statement's 'a payload that decodes to a rule list')", "file datasource: events are injected in order through a replacement of the fsnotify watcher; removal / rename-away are terminal events (the consumer goroutine stops), awaited by a bounded number of scheduler yields, not by wall time"],
    "budget_quick": 240,
    "budget_thorough": 600,
    "text": "Bounded exhaustive exploration of payload delivery sequences with exhaustive truncation probes, and of file event sequences.",
    "level_note": "Delivery depth 3 (quick) / 4 (thorough); 'all byte strings' is covered by classes plus every truncation of one valid payload per handler.",
    "technique": "explicit-state BFS over delivery sequences on the implementation with reference comparison; exhaustive prefix (truncation) enumeration",
}

META["C19"] = {
    "level": "exploration",
    "runner": "tools/c19_adapters.py",
    "rule": "every sentinel.Entry call site of every non-test source under pkg/adapters is found by scanning the working tree and must be EXECUTED by the drivers (statement-coverage profile of the run; a site that is not executed makes the run non-exhaustive); per entry point mode the complete matrix {admitted, blocked by a rule} x {user fallback, default rejection} x {handler returns, handler returns an error, handler panics} is run through the real middleware / interceptor / wrapper inside the real framework dispatch (thorough: additionally every ordered pair of such requests on ONE resource); oracle per run: blocked => handler not invoked, fallback called once (or the default rejection observed), exactly one block recorded, no pass, no completion; admitted => handler exactly once, exactly one pass and exactly one completion, events in the order passed,handler,completed, a returned handler error is on the completed entry, in-flight gauge back to 0; never a panic that is not the handler's own; distinct = inputs + node counters + response class",
    "assumptions": ["echo, fiber, gear, gin, grpc and hertz pin a released core (v1.0.2 / v1.0.4) in their own go.mod and their module graphs do not resolve offline against /repo: their adapter code is the working tree's, the core they link is that release; go-zero, goframe, iris (through a scratch -modfile), kitex, kratos and micro link /repo's core", "hertz and kitex: two third-party packages that no longer compile with the installed Go (sonic v1.3.0 top-level API, choleraehyq/pid) are replaced by stubs in the build overlay, and the packages' own tests (which need TCP ports) are blanked in the overlay; nothing of the adapter is replaced", "the framework around the adapter is the real one in its minimal configuration (no recovery middleware), driven synchronously in-process (no sockets)", "go-micro's server never applies a server.StreamWrapper itself; the driver applies it and then runs the stream handler, as user code has to"],
    "budget_quick": 300,
    "budget_thorough": 900,
    "shards": 1,
    "text": "Exhaustive enumeration of the finite input matrix over every adapter entry point found in the tree, executed on the real adapters; entry-point coverage is checked from the run's coverage profile, not from a hand-kept list.",
    "level_note": "The quantifier over programs is the set of entry points present in the working tree: a new, undriven sentinel.Entry call site is reported as a cap (exhaustive:false), never silently skipped. Concurrency between requests is not part of this check.",
    "technique": "bounded exhaustive enumeration of requests (and request pairs) on the implementation with an observer slot; scan + coverage cross-check of the program quantifier",
}

ENGINE_OF = {"C19": "matrix", "C18": "seq", "C17": "seq", "C20": "seq+sched", "C07": "seq", "C15": "sched", "C16": "seq", "C14": "seq", "C13": "seq", "C05": "seq", "C11": "seq", "C10": "seq+sched", "C12": "sched", "C03": "seq", "C06": "seq+sched", "C09": "sched; getters that read the clock themselves against the clock crossing the boundary", "C08": "seq", "C02": "seq+sched", "C04": "seq+sched", "C01": "seq+sched"}


# what rounds 14-24 of the seeded-change calibration added to each check's alphabet / oracle (DESIGN.md sections 3 and 7)
ADDED = {
    "C01": "one-token requests name no batch count (pooled-option defaults); a rule-check slot that writes a blocked verdict and then panics; two callers exiting ONE entry concurrently; a pass with a 90 s tick (long holds); queued entries under a throttling rule (response time includes the wait); an exit with a failing exit handler",
    "C02": "reload of ALL rules of the resource in one load; a batch-0 request under threshold 0; clocks 3 / 103 ms after zero and half a bucket before bucket number 2^32; a permissive throttling rule in front of the reject rules; a reload that changes only the RefResource of an associated rule",
    "C03": "off-round thresholds (0.25, 2.25 counts; ratio 0.25); configurations starting after one complete recovery round",
    "C04": "rules sharing one ID; the virtual clock at 0; the clock stepping back 10 ms",
    "C05": "F6 a second rule in front; F7 a reload changing only a specific threshold; negative index with exactly |index| arguments; a reload that changes only ParamsMaxCapacity (family F8)",
    "C06": "requests naming batch 3 / batch 0; attachment-only requests; an exit with a failing exit handler; concurrency rules whose ControlBehavior says Throttling; two concurrency rules sharing one ParamIndex",
    "C07": "an average-RT rule with trigger 70000 and a 90 s tick; an exit after a traced error",
    "C08": "0 ms response times; a start time half a bucket before bucket number 2^32",
    "C09": "idle-gap scenarios (two different slots roll over at once); reader-only scenarios without the shared-location reduction, readers of different windows; response-time recorders; non-termination verdict (still running after 10x the step horizon)",
    "C10": "thresholds 1.5 / 2.5; batch 0; a reload toggling only the queueing limit; memory-adaptive thresholds; a second throttling rule on the resource",
    "C11": "fractional thresholds 3.5 / 5.5 / 11.5; statistic intervals 500 / 2000 ms; an idle period of 2^32 ms + 704; 2- and 4-token requests on the resource statistic and on a statistic of the rule's own (700 / 1200 ms)",
    "C12": "a full retry timeout split into 1 ms + (timeout - 1 ms) across two threads; at most 3 recorded violations per class, a frequent class no longer ends a scenario",
    "C13": "content-identified rules incl. one-field variants (specific-item threshold, odd bucket count, cold factor); getter panics contained; outlier: a request per resource after every operation and node breakers compared with the rule in force; flow probe with two requests at one instant; memory-adaptive throttling rule in the flow catalogue",
    "C14": "breaker rule with a bucket count that does not divide the interval; memory-adaptive throttling subject; keeps-statistics check for both ratio strategies; error-ratio breaker subject",
    "C15": "two hotspot values, hotspot-concurrency module, invalid-only reload writers; getters against a clock moving past the window; non-termination verdict",
    "C16": "exit handler returning an error; half of the chains with the clock at 0; order values 0 and 2^32-1; a bare NewTokenResult(Blocked)",
    "C17": "resource names ' A' / 'A<TAB>'; application name with two dots; a second application's file in the directory; live-searcher pass (snapshot after write k, touch query, directory advanced, every query); writer created 500 / 999 ms into its first second",
    "C18": "blank payloads; golden wire texts with integers beyond 2^32 / 2^40; a file of 1.1 MiB; converters / updaters that panic with non-error values; rules identified by id + content hash, payloads differing in one inconspicuous field; two handlers on the file datasource; every undecodable payload delivered twice in a row",
    "C19": "x typed client-error handler, x already-cancelled context (RPC-style entry points), x block errors without a triggered rule, fallbacks answering nil or an error (the caller must get exactly that)",
    "C20": "state key includes the in-force percentage; known float-rounding signature limited to 'one node too many where the float64 product rounds up'; per-resource reload; one-recovery-attempt configurations to depth 7; Engine A recycle-timer scenario",
}
for _k, _v in ADDED.items():
    if _k in META and "Added by the calibration rounds" not in META[_k]["rule"]:
        META[_k]["rule"] += " Added by the calibration rounds 14-24: " + _v + "."

# properties not claimed, with the reason (kept current)
NOT_APPLICABLE = {}
