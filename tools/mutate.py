#!/usr/bin/env python3
"""Calibration only (not a registered check): systematic single-token changes of the functions a property is
anchored in, to find what a check does NOT notice.

  mutate.py list <rel.go> [--funcs a,b]                 enumerate the candidate changes
  mutate.py run <Cnn> <rel.go> [--funcs a,b] [--tests ./core/flow/...] [--jobs N] [--out dir]

For every candidate: the changed copy is written to a scratch directory under /tmp, compiled in through a
build overlay (nothing is written into /repo), the repository's own tests of the named packages are run
with it; a candidate that compiles and passes them ("survivor") is then given to `bin/vcheck <Cnn> quick`
through VERIF_MUTANT/VERIF_SCRATCH. The result table says caught / missed per survivor; the missed ones are
read by a person: equivalent change, change outside the property, or a gap of the check.
"""
import json
import os
import re
import shutil
import subprocess
import sys
from concurrent.futures import ThreadPoolExecutor

VERIF = os.path.dirname(os.path.dirname(os.path.abspath(__file__)))
ENV = dict(os.environ, GOFLAGS="-mod=mod", GOPROXY="off", GOSUMDB="off", GOTOOLCHAIN="local")
REPO = "/repo"

REL = [("<=", "<"), (">=", ">"), ("<", "<="), (">", ">="), ("==", "!="), ("!=", "==")]
TOKEN = re.compile(r"<=|>=|==|!=|&&|\|\||\+\+|--|\+=|-=|<-|<<|>>|[<>+\-*/]|\b\d+\b|\btrue\b|\bfalse\b")


def strip(line):
    """blank out string literals and comments, keeping columns"""
    out = []
    i = 0
    q = None
    while i < len(line):
        c = line[i]
        if q:
            if c == "\\" and q != "`":
                out.append("  ")
                i += 2
                continue
            if c == q:
                q = None
            out.append(" ")
        elif c in "\"'`":
            q = c
            out.append(" ")
        elif line.startswith("//", i):
            break
        else:
            out.append(c)
        i += 1
    return "".join(out)


def func_ranges(lines, funcs):
    rng = []
    i = 0
    while i < len(lines):
        m = re.match(r"func\s+(\([^)]*\)\s*)?(\w+)\s*[\(\[]", lines[i])
        if m:
            j = i
            while j < len(lines) and lines[j].rstrip() != "}":
                j += 1
            if not funcs or m.group(2) in funcs:
                rng.append((i, j, m.group(2)))
            i = j
        i += 1
    return rng


def candidates(src, funcs):
    lines = src.split("\n")
    out = []
    for (a, b, name) in func_ranges(lines, funcs):
        for ln in range(a + 1, b):
            raw = lines[ln]
            code = strip(raw)
            if not code.strip():
                continue
            # statement deletion: a lone call / inc-dec / compound assignment / defer
            st = code.strip()
            if re.match(r"^(defer\s+)?[\w\.\[\]\(\)\*&]+\([^{}]*\)$", st) or re.search(r"(\+\+|--)$", st) or re.search(r"[^=!<>]\s(\+=|-=)\s", st):
                if not st.startswith(("return", "panic", "logging.", "logger.", "go ")):
                    out.append((ln, 0, "del", name, "delete statement `%s`" % st[:60]))
            if re.match(r"^[\w\.\[\]\*]+ = [^{]+$", st) and "." in st.split(" = ")[0]:
                out.append((ln, 0, "del", name, "delete assignment `%s`" % st[:60]))
            if re.match(r"^(logging|logger)\.", st):
                continue
            for m in TOKEN.finditer(code):
                t = m.group(0)
                c = m.start()
                reps = []
                if t in ("<=", ">=", "<", ">", "==", "!="):
                    if t in ("<", ">") and (code[max(0, c - 1)] == "-" or code[c + 1:c + 2] == "-"):
                        continue
                    reps = [r for (x, r) in REL if x == t]
                    if t in ("<", "<="):
                        reps.append(">" if t == "<" else ">=")
                    if t in (">", ">="):
                        reps.append("<" if t == ">" else "<=")
                elif t == "&&":
                    reps = ["||"]
                elif t == "||":
                    reps = ["&&"]
                elif t == "++":
                    reps = ["--"]
                elif t == "--":
                    reps = ["++"]
                elif t == "+=":
                    reps = ["-="]
                elif t == "-=":
                    reps = ["+="]
                elif t in ("+", "-"):
                    # binary only: previous non-space char is an operand end
                    prev = code[:c].rstrip()
                    if not prev or prev[-1] not in ")]}" and not re.match(r"[\w]", prev[-1]):
                        continue
                    if re.search(r"\breturn$", prev):
                        continue
                    reps = ["-" if t == "+" else "+"]
                elif t == "*":
                    prev = code[:c].rstrip()
                    nxt = code[c + 1:c + 2]
                    if not prev or prev[-1] not in ")]" and not re.match(r"[\w]", prev[-1]) or nxt != " ":
                        continue
                    reps = ["/"]
                elif t == "/":
                    reps = ["*"]
                elif t in ("true", "false"):
                    reps = ["false" if t == "true" else "true"]
                elif t.isdigit():
                    prev = code[:c]
                    if re.search(r"[\w\.]$", prev) or code[c + len(t):c + len(t) + 1] in (".", "x"):
                        continue
                    n = int(t)
                    reps = [str(n + 1)] + ([str(n - 1)] if n > 0 else [])
                for r in reps:
                    out.append((ln, c, "tok", name, "`%s` -> `%s` in `%s`" % (t, r, raw.strip()[:70]), t, r))
            # negation removal / insertion on if conditions
            m = re.match(r"^(\s*(?:}\s*else\s+)?if\s+)(.*)\{\s*$", code)
            if m and ";" not in m.group(2):
                out.append((ln, len(m.group(1)), "neg", name, "negate condition `%s`" % raw.strip()[:70]))
    return lines, out


def apply(lines, cand):
    ln, c, kind = cand[0], cand[1], cand[2]
    new = list(lines)
    raw = lines[ln]
    if kind == "del":
        ind = raw[:len(raw) - len(raw.lstrip())]
        new[ln] = ind + "_ = 0 // deleted"
        # keep variables used: comment-out may break compile (unused vars) - such candidates are dropped
        new[ln] = ind + "// " + raw.strip()
    elif kind == "tok":
        t, r = cand[5], cand[6]
        new[ln] = raw[:c] + r + raw[c + len(t):]
    elif kind == "neg":
        m = re.match(r"^(\s*(?:}\s*else\s+)?if\s+)(.*?)(\s*\{\s*)$", raw)
        if not m:
            return None
        new[ln] = "%s!(%s)%s" % (m.group(1), m.group(2), m.group(3))
    return "\n".join(new)


def sh(cmd, cwd=None, env=None, timeout=3600):
    try:
        r = subprocess.run(cmd, shell=True, cwd=cwd, env=env or ENV, capture_output=True, text=True, timeout=timeout)
        return r.returncode, r.stdout + r.stderr
    except subprocess.TimeoutExpired as e:
        return 124, "timeout"


def main():
    a = sys.argv[1:]
    if not a:
        print(__doc__)
        sys.exit(2)

    def opt(name, d=None):
        return a[a.index(name) + 1] if name in a else d
    funcs = set((opt("--funcs") or "").split(",")) - {""}
    if a[0] == "list":
        rel = a[1]
        lines, cands = candidates(open(os.path.join(REPO, rel)).read(), funcs)
        for i, c in enumerate(cands):
            print(i, c[0] + 1, c[3], c[4])
        return
    pid, rel = a[1], a[2]
    tests = opt("--tests", "./" + os.path.dirname(rel) + "/...")
    jobs = int(opt("--jobs", "6"))
    vjobs = int(opt("--vjobs", "2"))
    budget = opt("--budget", "")
    only = opt("--only")
    out = opt("--out", "/tmp/mut-%s-%s" % (pid.replace(",", "_"), os.path.basename(rel)[:-3]))
    os.makedirs(out, exist_ok=True)
    src = open(os.path.join(REPO, rel)).read()
    lines, cands = candidates(src, funcs)
    if only:
        keep = set(int(x) for x in only.split(","))
        cands = [c if i in keep else None for i, c in enumerate(cands)]
    res = {}

    def stage1(i):
        c = cands[i]
        if c is None:
            return
        new = apply(lines, c)
        if new is None or new == src:
            return
        d = os.path.join(out, "m%03d" % i)
        os.makedirs(d, exist_ok=True)
        mf = os.path.join(d, os.path.basename(rel))
        open(mf, "w").write(new)
        ov = os.path.join(d, "ov.json")
        json.dump({"Replace": {os.path.join(REPO, rel): mf}}, open(ov, "w"))
        e = dict(ENV, SENTINEL_LOG_DIR=os.path.join(d, "logs"))
        rc, o = sh("go build -overlay %s ./... " % ov, cwd=REPO, env=e)
        if rc != 0:
            res[i] = {"stage": "nocompile"}
            shutil.rmtree(d, ignore_errors=True)
            return
        rc, o = sh("go test -overlay %s -vet=off -count=1 -timeout 10m %s" % (ov, tests), cwd=REPO, env=e, timeout=900)
        if rc != 0:
            res[i] = {"stage": "killed-by-tests"}
            shutil.rmtree(d, ignore_errors=True)
            return
        res[i] = {"stage": "survivor", "dir": d, "file": mf}

    with ThreadPoolExecutor(jobs) as ex:
        list(ex.map(stage1, range(len(cands))))
    surv = [i for i in sorted(res) if res[i]["stage"] == "survivor"]
    print("candidates=%d nocompile=%d killed-by-tests=%d survivors=%d" % (
        len([c for c in cands if c]), sum(1 for r in res.values() if r["stage"] == "nocompile"),
        sum(1 for r in res.values() if r["stage"] == "killed-by-tests"), len(surv)), flush=True)

    def stage2(i):
        d = res[i]["dir"]
        e = dict(ENV, VERIF_SCRATCH=d, VERIF_MUTANT="%s=%s" % (rel, res[i]["file"]), VERIF_NPROC=str(max(2, 16 // vjobs)))
        if budget:
            e["VERIF_BUDGET"] = budget
        rc, o, sigs = 0, "", []
        for one in pid.split(","):  # several properties: stop at the first check that reports the change
            rc1, o1 = sh("%s %s quick" % (os.path.join(VERIF, "bin", "vcheck"), one), cwd=VERIF, env=e, timeout=2400)
            sigs += re.findall(r"signature: (.*)", o1)
            o += o1
            if rc1 == 1:
                rc = 1
                break
            if rc1 != 0:
                rc = rc1
        res[i].update({"vcheck_rc": rc, "signatures": sigs[:4], "tail": o[-300:] if rc not in (0, 1) else ""})
        res[i]["verdict"] = {0: "MISSED", 1: "caught"}.get(rc, "harness-error")
        shutil.rmtree(os.path.join(d, ".build"), ignore_errors=True)
        c = cands[i]
        print("%s m%03d line %d %s: %s %s" % (res[i]["verdict"], i, c[0] + 1, c[3], c[4], sigs[:1]), flush=True)

    with ThreadPoolExecutor(vjobs) as ex:
        list(ex.map(stage2, surv))
    table = []
    for i in sorted(res):
        c = cands[i]
        r = dict(res[i])
        r.update({"id": i, "line": c[0] + 1, "func": c[3], "change": c[4]})
        r.pop("dir", None)
        table.append(r)
    json.dump({"property": pid, "file": rel, "funcs": sorted(funcs), "results": table}, open(os.path.join(out, "result.json"), "w"), indent=1)
    print("caught=%d missed=%d harness-error=%d  -> %s" % (
        sum(1 for r in table if r.get("verdict") == "caught"), sum(1 for r in table if r.get("verdict") == "MISSED"),
        sum(1 for r in table if r.get("verdict") == "harness-error"), os.path.join(out, "result.json")))


if __name__ == "__main__":
    main()
