#!/bin/sh
# Runs the repository's own test suite with the verification guard OFF (no -tags verif, no
# overlay): every Go module under /repo that the pinned baseline covers.
export GOFLAGS=-mod=mod GOPROXY=off GOSUMDB=off GOTOOLCHAIN=local
rc=0
for gm in $(cd /repo && find . -name go.mod -not -path './example/*' | sort); do
  d=$(dirname "$gm")
  (cd "/repo/$d" && go test -vet=off -count=1 -timeout 25m ./...) || rc=1
done
exit $rc
