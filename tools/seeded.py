#!/usr/bin/env python3
"""Seeded property-breaking changes: independent confirmation and detection runs.

  seeded.py confirm <outdir>            confirm a sub-agent's change in a FRESH scratch worktree:
                                        demo passes on the unchanged tree; with patch.diff applied the
                                        tree builds, the existing tests of the touched packages pass and
                                        the demo fails. Prints a JSON verdict.
  seeded.py keep <outdir> <name>        copy a confirmed change to /verif/seeded/<name>/
  seeded.py try <name> [Cnn ...] [--tier quick|thorough]
                                        apply /verif/seeded/<name>/patch.diff to /repo, run the checks
                                        (default: the property in meta.json), undo the change, and print
                                        which checks reported a VIOLATION.
Nothing is ever committed to /repo; `try` always restores it with `git checkout -- .`.
"""
import json
import os
import re
import shutil
import subprocess
import sys

VERIF = os.path.dirname(os.path.dirname(os.path.abspath(__file__)))
ENV = dict(os.environ, GOFLAGS="-mod=mod", GOPROXY="off", GOSUMDB="off", GOTOOLCHAIN="local")


def sh(cmd, cwd=None, timeout=1800):
    r = subprocess.run(cmd, shell=True, cwd=cwd, env=ENV, capture_output=True, text=True, timeout=timeout)
    return r.returncode, (r.stdout + r.stderr)


def touched_packages(patch):
    pk = set()
    for m in re.finditer(r"^\+\+\+ b/(\S+)", patch, re.M):
        d = os.path.dirname(m.group(1))
        if m.group(1).endswith(".go"):
            pk.add("./" + d + "/...")
    return sorted(pk)


def confirm(outdir):
    meta = json.load(open(os.path.join(outdir, "meta.json")))
    patch = open(os.path.join(outdir, "patch.diff")).read()
    wt = "/tmp/cf-%s-%d" % (meta["property"], os.getpid())
    rc, out = sh("git -C /repo worktree add -q --detach %s HEAD" % wt)
    verdict = {"property": meta["property"], "ok": False}
    try:
        # demo files: everything in outdir except patch/meta, copied to the path relative to the agent's worktree
        demo_cmd = meta["demo_cmd"]
        agent_wt = "/tmp/wt-" + meta["property"]
        rc, out = sh("git -C %s status --porcelain --untracked-files=all" % agent_wt)
        demos = [l[3:] for l in out.splitlines() if l.startswith("??")]
        for d in demos:
            os.makedirs(os.path.dirname(os.path.join(wt, d)) or wt, exist_ok=True)
            shutil.copy(os.path.join(agent_wt, d), os.path.join(wt, d))
        verdict["demo_files"] = demos
        rc, out = sh(demo_cmd, cwd=wt)
        verdict["demo_passes_without_change"] = rc == 0
        verdict["demo_without_tail"] = out[-400:]
        rc, out = sh("git apply --whitespace=nowarn %s" % os.path.join(os.path.abspath(outdir), "patch.diff"), cwd=wt)
        verdict["patch_applies"] = rc == 0
        rc, out = sh("go build ./...", cwd=wt)
        verdict["builds"] = rc == 0
        pk = touched_packages(patch)
        # existing tests: move demo files away first
        for d in demos:
            os.rename(os.path.join(wt, d), os.path.join(wt, d) + ".hold")
        adapters = sorted({m.group(1) for m in re.finditer(r"^\+\+\+ b/pkg/adapters/([^/]+)/", patch, re.M)})
        pk = [x for x in pk if not x.startswith("./pkg/adapters/")]
        tests = " ".join(pk + ["./api/...", "./tests/...", "./core/base/...", "./core/stat/..."])
        rc, out = sh("go test -vet=off -count=1 %s" % tests, cwd=wt, timeout=3000)
        for ad in adapters:
            # adapters are Go modules of their own; -v because some TestMain end with os.Exit(0)
            rc2, out2 = sh("go build ./... && go test -vet=off -count=1 -v .", cwd=os.path.join(wt, "pkg", "adapters", ad), timeout=3000)
            out += "\n" + out2
            if rc2 != 0 and "--- FAIL" not in out2 and "FAIL" not in out2:
                out += "\nFAIL adapter %s rc=%d" % (ad, rc2)
            verdict.setdefault("adapter_tests", {})[ad] = len(re.findall(r"^--- PASS", out2, re.M))
        fails = [l for l in out.splitlines() if l.startswith("FAIL") or l.startswith("--- FAIL")]
        fails = [l for l in fails if "HotSpotParamRuleJsonArrayParser" not in l and l.strip() not in ("FAIL", "FAIL\tgithub.com/alibaba/sentinel-golang/ext/datasource")]
        verdict["existing_tests_pass"] = not [l for l in fails if "ext/datasource\t" not in l]
        verdict["existing_tests_cmd"] = "go test -vet=off -count=1 " + tests
        verdict["existing_fail_lines"] = fails[:5]
        for d in demos:
            os.rename(os.path.join(wt, d) + ".hold", os.path.join(wt, d))
        rc, out = sh(demo_cmd, cwd=wt)
        verdict["demo_fails_with_change"] = rc != 0
        verdict["demo_with_tail"] = out[-400:]
        verdict["ok"] = all(verdict.get(k) for k in ("demo_passes_without_change", "patch_applies", "builds", "existing_tests_pass", "demo_fails_with_change"))
    finally:
        sh("git -C /repo worktree remove --force %s" % wt)
    print(json.dumps(verdict, indent=1))
    return verdict


def keep(outdir, name):
    dst = os.path.join(VERIF, "seeded", name)
    os.makedirs(dst, exist_ok=True)
    meta = json.load(open(os.path.join(outdir, "meta.json")))
    agent_wt = "/tmp/wt-" + meta["property"]
    shutil.copy(os.path.join(outdir, "patch.diff"), os.path.join(dst, "patch.diff"))
    rc, out = sh("git -C %s status --porcelain --untracked-files=all" % agent_wt)
    demos = [l[3:] for l in out.splitlines() if l.startswith("??")]
    for d in demos:
        shutil.copy(os.path.join(agent_wt, d), os.path.join(dst, os.path.basename(d)))
    meta["demo_files"] = demos
    json.dump(meta, open(os.path.join(dst, "meta.json"), "w"), indent=1)
    print("kept", dst)


def try_(name, props, tier):
    d = os.path.join(VERIF, "seeded", name)
    meta = json.load(open(os.path.join(d, "meta.json")))
    if not props:
        props = [meta["property"]]
    rc, out = sh("git -C /repo status --porcelain")
    if out.strip():
        print("refusing: /repo has uncommitted changes")
        return 2
    rc, out = sh("git -C /repo apply --whitespace=nowarn %s" % os.path.join(d, "patch.diff"))
    if rc != 0:
        print("patch does not apply:", out)
        return 2
    res = {}
    try:
        for p in props:
            rc, out = sh("%s %s %s" % (os.path.join(VERIF, "bin", "vcheck"), p, tier), cwd=VERIF, timeout=7200)
            sigs = re.findall(r"signature: (\S+)", out)
            res[p] = {"exit": rc, "violation": "VIOLATION property=" in out, "signatures": sigs,
                      "harness_error": "HARNESS-ERROR" in out, "summary": out.strip().splitlines()[-1] if out.strip() else ""}
    finally:
        sh("git -C /repo checkout -- .")
        # evidence files were rewritten against the modified tree: they are regenerated by the next clean run
    print(json.dumps({"seeded": name, "results": res}, indent=1))
    return 0


def main():
    a = sys.argv[1:]
    if not a:
        print(__doc__)
        return 2
    if a[0] == "confirm":
        v = confirm(a[1])
        return 0 if v["ok"] else 1
    if a[0] == "keep":
        keep(a[1], a[2])
        return 0
    if a[0] == "try":
        tier = "quick"
        if "--tier" in a:
            tier = a[a.index("--tier") + 1]
            a = [x for i, x in enumerate(a) if x != "--tier" and (i == 0 or a[i - 1] != "--tier")]
        return try_(a[1], a[2:], tier)
    print(__doc__)
    return 2


if __name__ == "__main__":
    sys.exit(main())
