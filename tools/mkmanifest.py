#!/usr/bin/env python3
"""Regenerates the checks / not_applicable sections of MANIFEST.json from tools/propmeta.py."""
import json, os, sys
VERIF = os.path.dirname(os.path.dirname(os.path.abspath(__file__)))
sys.path.insert(0, os.path.join(VERIF, "tools"))
from propmeta import META, NOT_APPLICABLE, ENGINE_OF
m = json.load(open(os.path.join(VERIF, "MANIFEST.json")))
ids = [json.loads(l)["id"] for l in open(os.path.join(VERIF, "properties.jsonl"))]
checks = []
na = []
for pid in ids:
    if pid in META:
        x = META[pid]
        checks.append({
            "property_id": pid,
            "quick_cmd": "bin/vcheck %s quick" % pid,
            "thorough_cmd": "bin/vcheck %s thorough" % pid,
            "evidence_file": "evidence/%s.json" % pid,
            "replay_cmd_template": "bin/vcheck %s --replay {path}" % pid,
            "engine": ENGINE_OF.get(pid, "seq"),
            "level_claimed": {"category": x["level"], "text": x["text"], "design_ref": x.get("design_ref", "DESIGN.md section 3, " + pid)},
            "level_note": x["level_note"],
            "technique": x["technique"],
        })
    else:
        na.append({"property_id": pid, "reason": NOT_APPLICABLE.get(pid, "check not built yet (work in progress); the technique applies, see DESIGN.md section 3")})
m["checks"] = checks
m["not_applicable"] = na
for e in m.get("engines", []):
    e["serves_properties"] = [p for p in ids if p in META and ENGINE_OF.get(p, "seq").find(e["name"]) >= 0]
json.dump(m, open(os.path.join(VERIF, "MANIFEST.json"), "w"), indent=1)
print("MANIFEST: %d checks, %d not_applicable" % (len(checks), len(na)))
