#!/usr/bin/env python3
"""C19 runner: drives EVERY entry point of /repo/pkg/adapters through the complete input matrix and
judges every run.

  c19_adapters.py -tier quick|thorough -out <shard.json>     (called by bin/vcheck)
  c19_adapters.py --warm                                      (setup: compile the adapter test binaries)
  c19_adapters.py --replay <file>                             re-run one recorded case, exit 1 if it still fails

What is enumerated (the "model" is just the finite input alphabet; the transitions are executions of the
real middleware):
  entry point mode   every sentinel.Entry call site of every non-test file under pkg/adapters (found by
                     scanning the working tree; each must be EXECUTED by the drivers, checked from the
                     statement-coverage profile of the run, otherwise the run is not exhaustive)
  x decision         admitted | blocked (a flow rule with threshold 0 on the resource of the case)
  x fallback         user fallback configured | default rejection
  x handler          returns normally | returns (signals) an error | panics
  quick   : every single request of that matrix (a fresh resource per case)
  thorough: additionally every ORDERED PAIR of handler behaviours x decisions on ONE resource
            (history of two requests: the second must be judged exactly like a first one - drivers run
            with C19_PAIRS=1)
Drivers live in /verif/adapters/<adapter>/zz_verif_c19_test.go and are added to the adapter's package
with a build overlay (nothing is written into /repo). They only observe: a recording stat slot on the
global slot chain, the resource node's counters and in-flight gauge, call counters in the handler and
the fallback, and the panic (if any) escaping from the framework's dispatch.
"""
import json
import os
import re
import shutil
import subprocess
import sys
import time
from concurrent.futures import ThreadPoolExecutor

VERIF = os.path.dirname(os.path.dirname(os.path.abspath(__file__)))
REPO = "/repo"
AD = os.path.join(REPO, "pkg", "adapters")
BUILD = os.path.join(VERIF, ".build", "c19")
STUBS = os.path.join(VERIF, "adapters", "_depstubs")
ENV = dict(os.environ, GOFLAGS="-mod=mod", GOPROXY="off", GOSUMDB="off", GOTOOLCHAIN="local")

# adapter modules that pin a released core but whose module graph also resolves offline against /repo:
# they are linked against the working tree's core through a scratch -modfile
LINK_REPO_CORE = ["go-zero", "goframe", "iris"]
# adapter modules whose dependencies do not compile with the installed Go; two dependency packages are
# replaced by stubs in the overlay (see adapters/_depstubs) and the package's own tests, which need a
# network port and more of those dependencies, are blanked in the overlay
NEED_STUBS = {"hertz": "hertz", "kitex": "kitex"}


def gomodcache():
    r = subprocess.run(["go", "env", "GOMODCACHE"], env=ENV, capture_output=True, text=True)
    return r.stdout.strip() or "/root/go/pkg/mod"


def scan_entry_sites():
    """every call of <sentinel api>.Entry( in non-test adapter sources: (adapter, file, line, func)"""
    sites = []
    for ad in sorted(os.listdir(AD)):
        d = os.path.join(AD, ad)
        if not os.path.isdir(d):
            continue
        for root, _, files in os.walk(d):
            for fn in sorted(files):
                if not fn.endswith(".go") or fn.endswith("_test.go"):
                    continue
                p = os.path.join(root, fn)
                rel = os.path.relpath(p, d)
                if rel.split(os.sep)[0] in ("test", "example", "examples"):
                    continue
                src = open(p).read()
                # import aliases of the sentinel api package
                aliases = set()
                for m in re.finditer(r'^\s*(\w+)?\s*"github.com/alibaba/sentinel-golang/api"', src, re.M):
                    aliases.add(m.group(1) or "api")
                if not aliases:
                    continue
                cur = None
                for i, line in enumerate(src.split("\n"), 1):
                    m = re.match(r"func\s+(\([^)]*\)\s*)?(\w+)", line)
                    if m:
                        recv = ""
                        if m.group(1):
                            t = re.sub(r"[()*]", " ", m.group(1)).split()
                            recv = t[-1] + "."
                        cur = recv + m.group(2)
                    s = line.split("//")[0]
                    for a in aliases:
                        if re.search(r"\b%s\.Entry\(" % re.escape(a), s):
                            sites.append({"adapter": ad, "file": rel, "line": i, "func": cur})
    return sites


def adapters_with_drivers():
    out = []
    for ad in sorted(os.listdir(os.path.join(VERIF, "adapters"))):
        if os.path.exists(os.path.join(VERIF, "adapters", ad, "zz_verif_c19_test.go")):
            out.append(ad)
    return out


def prepare(ad):
    """write the overlay (and scratch modfile) for one adapter; returns the go test argument list"""
    os.makedirs(BUILD, exist_ok=True)
    rep = {os.path.join(AD, ad, "zz_verif_c19_test.go"): os.path.join(VERIF, "adapters", ad, "zz_verif_c19_test.go")}
    env = dict(ENV)
    args = []
    if ad in NEED_STUBS:
        mc = gomodcache()
        s3 = os.path.join(mc, "github.com/bytedance/sonic@v1.3.0")
        pid = os.path.join(mc, "github.com/choleraehyq/pid@v0.0.17")
        rep[os.path.join(s3, "api.go")] = os.path.join(STUBS, "sonic_stub.go.txt")
        for f in ("compat.go", "sonic.go"):
            rep[os.path.join(s3, f)] = os.path.join(STUBS, "ignore_sonic.go.txt")
        rep[os.path.join(pid, "pid_go1.5_amd64.s")] = os.path.join(STUBS, "ignore.s.txt")
        rep[os.path.join(pid, "pid_go1.5.go")] = os.path.join(STUBS, "pid_stub.go.txt")
        for f in os.listdir(os.path.join(AD, ad)):
            if f.endswith("_test.go") and f != "zz_verif_c19_test.go":
                rep[os.path.join(AD, ad, f)] = os.path.join(STUBS, "empty_%s_test.go.txt" % NEED_STUBS[ad])
        # the module index would hide overlay replacements inside the module cache
        env["GODEBUG"] = "goindex=0"
    if ad in LINK_REPO_CORE:
        mf = os.path.join(BUILD, ad + ".mod")
        src = open(os.path.join(AD, ad, "go.mod")).read()
        src = re.sub(r"^replace github.com/alibaba/sentinel-golang .*$", "", src, flags=re.M)
        open(mf, "w").write(src + "\nreplace github.com/alibaba/sentinel-golang => /repo\n")
        with open(os.path.join(BUILD, ad + ".sum"), "w") as f:
            f.write(open(os.path.join(AD, ad, "go.sum")).read())
            f.write(open(os.path.join(REPO, "go.sum")).read())
        args += ["-modfile=" + mf]
    ov = os.path.join(BUILD, "ov-%s.json" % ad)
    json.dump({"Replace": rep}, open(ov, "w"), indent=1)
    args += ["-overlay", ov]
    return args, env


def run_adapter(ad, pairs, warm=False):
    args, env = prepare(ad)
    cov = os.path.join(BUILD, "cover-%s.out" % ad)
    if os.path.exists(cov):
        os.remove(cov)
    if pairs:
        env["C19_PAIRS"] = "1"
    # the drivers run in parallel processes: a log directory and application name of its own for each
    logd = os.path.join(BUILD, "logs-" + ad)
    shutil.rmtree(logd, ignore_errors=True)
    os.makedirs(logd, exist_ok=True)
    env["SENTINEL_LOG_DIR"] = logd
    env["SENTINEL_APP_NAME"] = "c19-" + ad
    cmd = ["go", "test"] + args + ["-vet=off", "-count=1", "-coverprofile=" + cov, "-run",
                                   "^TestVerifC19$" if not warm else "^TestVerifC19Nothing$", "-v", "."]
    t0 = time.time()
    try:
        r = subprocess.run(cmd, cwd=os.path.join(AD, ad), env=env, capture_output=True, text=True, timeout=1500)
        out, rc = r.stdout + r.stderr, r.returncode
    except subprocess.TimeoutExpired as e:
        out, rc = "timeout: " + str(e), 124
    rows = []
    for line in out.split("\n"):
        if line.startswith("C19CASE "):
            try:
                rows.append(json.loads(line[8:]))
            except Exception:
                rc = rc or 3
    covered = {}
    total = hit = 0
    if os.path.exists(cov):
        for line in open(cov).read().split("\n")[1:]:
            m = re.match(r"(.+):(\d+)\.\d+,(\d+)\.\d+ (\d+) (\d+)$", line)
            if not m:
                continue
            f = os.path.basename(m.group(1))
            if f.startswith("zz_verif"):
                continue
            n, c = int(m.group(4)), int(m.group(5))
            total += n
            hit += n if c > 0 else 0
            for ln in range(int(m.group(2)), int(m.group(3)) + 1):
                k = (m.group(1).split("/adapters/", 1)[-1], ln)
                covered[k] = covered.get(k, False) or c > 0
    shutil.rmtree(logd, ignore_errors=True)
    return {"adapter": ad, "rc": rc, "rows": rows, "tail": out[-1500:] if rc != 0 else "", "covered": covered,
            "stmts": total, "stmts_hit": hit, "wall": time.time() - t0}


OWN_PANIC = "c19 handler panic"


def judge(r):
    """returns a list of (class, text) for one observed run"""
    v = []
    esc = r.get("escaped_panic", "")
    adm = r["admitted_expected"]
    if esc and not (adm and r["handler"] == "panic" and OWN_PANIC in esc):
        if OWN_PANIC in esc:
            # the handler's own panic can only escape if the handler ran: reported below as handler-invoked
            pass
        else:
            v.append(("panic-not-from-handler", "a panic that is not the handler's reached the caller: %s" % esc[:160]))
    npass, nblock, ncomp, nerr = r["node_pass"], r["node_block"], r["node_complete"], r["node_error"]
    seen = not r.get("private_chain", False)
    if not adm:
        if r["handler_calls"] != 0:
            v.append(("handler-invoked-though-blocked", "the request was blocked but the wrapped handler ran %d time(s)" % r["handler_calls"]))
        if r["fallback"] and r.get("fallback_available", True) and r["fallback_calls"] != 1:
            v.append(("fallback-not-produced", "blocked with a fallback configured, fallback ran %d time(s) (response %s)" % (r["fallback_calls"], r["response"][:80])))
        if r["fallback"] and r.get("fallback_available", True) and r.get("body_checked") and r.get("body", "") != r.get("fallback_body", ""):
            v.append(("fallback-response-altered", "blocked with a fallback configured: the response body is %r, the fallback wrote %r" % (r.get("body", "")[:80], r.get("fallback_body", ""))))
        if not r["fallback"] and not r["default_rejection_seen"]:
            v.append(("default-rejection-missing", "blocked without a fallback, but the response is not the default rejection: %s" % r["response"][:80]))
        if nblock != 1 or npass != 0 or ncomp != 0 or (seen and (r["blocked"] != 1 or r["passed"] != 0 or r["completed"] != 0)):
            v.append(("blocked-accounting", "blocked request: node pass/block/complete=%d/%d/%d, slot callbacks passed/blocked/completed=%d/%d/%d (want 0/1/0)" % (npass, nblock, ncomp, r["passed"], r["blocked"], r["completed"])))
    else:
        if r["handler_calls"] != 1:
            v.append(("handler-not-exactly-once", "admitted request: the handler ran %d time(s)" % r["handler_calls"]))
        if r["fallback_calls"] != 0:
            v.append(("fallback-on-admitted", "admitted request: the fallback ran"))
        if npass != 1 or nblock != 0 or (seen and (r["passed"] != 1 or r["blocked"] != 0)):
            v.append(("entry-not-asked", "admitted request: node pass/block=%d/%d, callbacks passed/blocked=%d/%d (want 1/0)" % (npass, nblock, r["passed"], r["blocked"])))
        if ncomp != 1 or (seen and r["completed"] != 1):
            v.append(("exit-not-exactly-once", "admitted request (handler %s): the entry completed %d time(s) (callbacks: %d), want exactly 1" % (r["handler"], ncomp, r["completed"])))
        if seen and r["handler_calls"] == 1 and r.get("seq", "passed,handler,completed") != "passed,handler,completed":
            v.append(("entry-not-open-while-handler-runs", "the handler did not run between the entry's admission and its completion: order of events %s" % r.get("seq")))
        if r["handler"] in ("err", "errtyped") and r["handler_can_return_error"] and nerr != 1:
            v.append(("handler-error-not-traced", "the handler returned an error but the entry completed without it (node error count %d)" % nerr))
        if r["handler"] == "ok" and nerr != 0:
            v.append(("error-traced-without-error", "the handler succeeded but an error was traced"))
    if r["gauge_after"] != 0:
        v.append(("in-flight-gauge-not-zero", "the in-flight gauge of the resource is %d after the request" % r["gauge_after"]))
    if not r["node_found"]:
        v.append(("no-resource-node", "no statistic node exists for the resource: Sentinel was never asked"))
    return v


def case_id(r):
    return "%s/%s/%s/%s/%s" % (r["adapter"], r["entry_point"], "admitted" if r["admitted_expected"] else "blocked",
                               "fallback" if r["fallback"] else "default", r["handler"]) + (
        "/after:" + r["history"] if r.get("history") else "") + ("/ctx-done" if r.get("ctx_done") else "") + ("/block-without-rule" if r.get("block_without_rule") else "")


def run_all(tier, only=None):
    pairs = tier == "thorough"
    ads = adapters_with_drivers()
    if only:
        ads = [a for a in ads if a in only]
    with ThreadPoolExecutor(max_workers=min(len(ads), int(os.environ.get("VERIF_NPROC", os.cpu_count() or 4)))) as ex:
        res = list(ex.map(lambda a: run_adapter(a, pairs), ads))
    return res


def main():
    a = sys.argv[1:]
    if "--warm" in a:
        ads = adapters_with_drivers()
        with ThreadPoolExecutor(max_workers=8) as ex:
            res = list(ex.map(lambda x: run_adapter(x, False, warm=True), ads))
        bad = [r for r in res if r["rc"] != 0]
        for r in bad:
            print("C19 warm-up: %s does not build:\n%s" % (r["adapter"], r["tail"]))
        return 0  # the check itself reports build problems
    if "--replay" in a:
        v = json.load(open(a[a.index("--replay") + 1]))
        want = v.get("replay") or {}
        res = run_all("thorough" if want.get("history") else "quick", only=[want.get("adapter")])
        for r in res:
            for row in r["rows"]:
                if case_id(row) == want.get("case"):
                    j = judge(row)
                    print(json.dumps(row, indent=1))
                    for c, t in j:
                        print("still fails: %s: %s" % (c, t))
                    return 1 if any(c == want.get("class") for c, _ in j) else 0
        print("case not found:", want)
        return 2
    tier = a[a.index("-tier") + 1] if "-tier" in a else "quick"
    outp = a[a.index("-out") + 1] if "-out" in a else None
    t0 = time.time()
    sites = scan_entry_sites()
    res = run_all(tier)
    rep = {"states": 0, "transitions": 0, "evaluations": 0, "traces_validated_against_impl": 0, "distinct": [],
           "samples": [], "exhaustive": True, "caps": [], "harness_errors": [], "bounds": {}, "violations": []}
    byad = {r["adapter"]: r for r in res}
    distinct = set()
    per = {}
    modes = set()
    for r in res:
        if r["rc"] != 0:
            rep["harness_errors"].append("driver of adapter %s failed (rc=%s): %s" % (r["adapter"], r["rc"], r["tail"][-600:]))
        for row in r["rows"]:
            rep["evaluations"] += 1
            rep["transitions"] += 1
            rep["traces_validated_against_impl"] += 1
            modes.add((row["adapter"], row["entry_point"]))
            if row["fallback"] and not row.get("fallback_available", True):
                # the entry point has no fallback option: this input does not exist for it
                rep["evaluations"] -= 1
                continue
            distinct.add("%s|%s|%s|%d%d%d%d|%s" % (row["admitted_expected"], row["fallback"], row["handler"],
                                                    row["node_pass"], row["node_block"], row["node_complete"],
                                                    row["node_error"], row["response"][:24]))
            for cls, text in judge(row):
                sig = "C19:%s:%s:%s" % (row["adapter"], row["entry_point"], cls)
                per[sig] = per.get(sig, 0) + 1
                if per[sig] <= 2:
                    rep["violations"].append({"signature": sig, "what": "%s [%s]" % (text, case_id(row)),
                                              "scenario": case_id(row),
                                              "replay": {"adapter": row["adapter"], "case": case_id(row), "class": cls,
                                                         "history": row.get("history", ""), "observed": row}})
    rep["states"] = len(modes)
    # coverage of the quantifier "all adapter entry points": every Entry call site must have been executed
    uncovered = []
    for s in sites:
        r = byad.get(s["adapter"])
        key = ("%s/%s" % (s["adapter"], s["file"]), s["line"])
        ok = False
        if r:
            for (f, ln), c in r["covered"].items():
                if ln == s["line"] and ("/" + f).endswith("/" + s["file"]):
                    ok = ok or c
        if not ok:
            uncovered.append("%s:%d (%s)" % (key[0], key[1], s["func"]))
    if uncovered:
        rep["caps"].append("sentinel.Entry call sites not executed by any driver (the property is undecided for them): " + ", ".join(uncovered))
        rep["exhaustive"] = False
    if rep["harness_errors"]:
        rep["exhaustive"] = False
    rep["distinct"] = sorted(distinct)
    rep["bounds"] = {
        "adapters": len(res), "entry_point_modes": len(modes), "entry_call_sites_in_tree": len(sites),
        "entry_call_sites_executed": len(sites) - len(uncovered),
        "inputs_per_mode": "2 decisions x 2 fallback settings x 4 handler behaviours (ok, plain error, panic, the framework's typed client error) ; blocked requests also with a block error that names no rule (x 2 request shapes - live / already cancelled context - where the entry point takes the caller's context: grpc, hertz, kitex, kratos, micro)" + (" + every ordered pair of requests on one resource" if tier == "thorough" else ""),
        "statement_coverage_of_adapter_packages": {r["adapter"]: "%d/%d" % (r["stmts_hit"], r["stmts"]) for r in res},
        "core_linked": {r["adapter"]: ("/repo working tree" if (r["adapter"] in LINK_REPO_CORE or r["adapter"] in ("kitex", "kratos", "micro")) else "release pinned by the adapter's go.mod") for r in res},
    }
    for r in res[:3]:
        if r["rows"]:
            rep["samples"].append({"case": case_id(r["rows"][0]), "observed": r["rows"][0]})
    rep["wall"] = time.time() - t0
    if outp:
        json.dump(rep, open(outp, "w"))
    else:
        print(json.dumps(rep, indent=1)[:6000])
    return 0


if __name__ == "__main__":
    sys.exit(main())
