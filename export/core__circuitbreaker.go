//go:build verif

package circuitbreaker

// Accessors added by the verification overlay (read only).

import (
	"sync/atomic"
	"unsafe"

	sbase "github.com/alibaba/sentinel-golang/core/stat/base"
)

// VerifBreakers returns the live breakers of res in enforcement order.
func VerifBreakers(res string) []CircuitBreaker {
	updateMux.RLock()
	defer updateMux.RUnlock()
	return append([]CircuitBreaker(nil), breakers[res]...)
}

// VerifCBBucket is one slot of a breaker's statistic: start, "bad" count (slow / error), total.
type VerifCBBucket struct {
	Start      uint64
	Bad, Total uint64
}

// VerifCBDump is a plain copy of a breaker's private state.
type VerifCBDump struct {
	State     State
	NextRetry uint64
	CurProbe  uint64
	Buckets   []VerifCBBucket
	LockWord  int32
}

func verifBase(cb CircuitBreaker) (*circuitBreakerBase, *sbase.LeapArray) {
	switch b := cb.(type) {
	case *slowRtCircuitBreaker:
		return &b.circuitBreakerBase, b.stat.data
	case *errorRatioCircuitBreaker:
		return &b.circuitBreakerBase, b.stat.data
	case *errorCountCircuitBreaker:
		return &b.circuitBreakerBase, b.stat.data
	}
	return nil, nil
}

// VerifDump copies the breaker's state word, retry deadline, probe counter and counters.
func VerifDump(cb CircuitBreaker) VerifCBDump {
	var d VerifCBDump
	base, la := verifBase(cb)
	if base == nil {
		return d
	}
	d.State = State(atomic.LoadInt32((*int32)(base.state)))
	d.NextRetry = atomic.LoadUint64(&base.nextRetryTimestampMs)
	d.CurProbe = atomic.LoadUint64(&base.curProbeNumber)
	if la != nil {
		for _, w := range la.VerifWraps() {
			b := VerifCBBucket{Start: atomic.LoadUint64(&w.BucketStart)}
			switch c := w.Value.RawLoad().(type) {
			case *slowRequestCounter:
				b.Bad, b.Total = atomic.LoadUint64(&c.slowCount), atomic.LoadUint64(&c.totalCount)
			case *errorCounter:
				b.Bad, b.Total = atomic.LoadUint64(&c.errorCount), atomic.LoadUint64(&c.totalCount)
			}
			d.Buckets = append(d.Buckets, b)
		}
		d.LockWord = la.VerifLockWord()
	}
	return d
}

// VerifStateAddr / VerifDeadlineAddr: addresses of the state word and the retry deadline.
func VerifStateAddr(cb CircuitBreaker) unsafe.Pointer {
	base, _ := verifBase(cb)
	return unsafe.Pointer(base.state)
}

func VerifDeadlineAddr(cb CircuitBreaker) unsafe.Pointer {
	base, _ := verifBase(cb)
	return unsafe.Pointer(&base.nextRetryTimestampMs)
}

// VerifRegions lists the breaker's memory for the explorer's stable location ids.
func VerifRegions(cb CircuitBreaker) []sbase.VerifRegion {
	base, la := verifBase(cb)
	out := []sbase.VerifRegion{
		{Base: unsafe.Pointer(base), Size: unsafe.Sizeof(*base)},
		{Base: unsafe.Pointer(base.state), Size: unsafe.Sizeof(*base.state)},
	}
	if la != nil {
		out = append(out, la.VerifRegions()...)
		for _, w := range la.VerifWraps() {
			switch c := w.Value.RawLoad().(type) {
			case *slowRequestCounter:
				out = append(out, sbase.VerifRegion{Base: unsafe.Pointer(c), Size: unsafe.Sizeof(*c)})
			case *errorCounter:
				out = append(out, sbase.VerifRegion{Base: unsafe.Pointer(c), Size: unsafe.Sizeof(*c)})
			}
		}
	}
	return out
}
