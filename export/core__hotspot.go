//go:build verif

package hotspot

import (
	"fmt"

	"github.com/alibaba/sentinel-golang/core/hotspot/cache"
)

// VerifConcurrency dumps the per-value in-flight counters of every concurrency rule of res.
func VerifConcurrency(res string) string {
	tcMux.RLock()
	tcs := tcMap[res]
	tcMux.RUnlock()
	s := ""
	for i, tc := range tcs {
		m := tc.BoundMetric()
		if m == nil || m.ConcurrencyCounter == nil {
			continue
		}
		s += fmt.Sprintf("#%d%v", i, cache.VerifDump(m.ConcurrencyCounter))
	}
	return s
}

// VerifCounters returns, for rule #idx of res, the concurrency / token / time cache dumps.
func VerifCounters(res string, idx int) (conc, tokens, times []cache.VerifKV) {
	tcMux.RLock()
	tcs := tcMap[res]
	tcMux.RUnlock()
	if idx >= len(tcs) {
		return
	}
	m := tcs[idx].BoundMetric()
	if m == nil {
		return
	}
	if m.ConcurrencyCounter != nil {
		conc = cache.VerifDump(m.ConcurrencyCounter)
	}
	if m.RuleTokenCounter != nil {
		tokens = cache.VerifDump(m.RuleTokenCounter)
	}
	if m.RuleTimeCounter != nil {
		times = cache.VerifDump(m.RuleTimeCounter)
	}
	return
}
