//go:build verif

package stat

// Accessors added by the verification overlay (read / reset only).

import (
	"github.com/alibaba/sentinel-golang/core/base"
	sbase "github.com/alibaba/sentinel-golang/core/stat/base"
)

// VerifArr exposes the node's underlying bucket array (for state dumps).
func (n *BaseStatNode) VerifArr() *sbase.BucketLeapArray { return n.arr }

// VerifResetInbound replaces the global inbound node by a fresh one.
func VerifResetInbound() {
	inboundNode = NewResourceNode(base.TotalInBoundResourceName, base.ResTypeCommon)
}
