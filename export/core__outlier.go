//go:build verif

package outlier

// Accessors added by the verification overlay.

import (
	"runtime"

	"github.com/alibaba/sentinel-golang/core/circuitbreaker"
	vtime "github.com/alibaba/sentinel-golang/verifshim/vtime"
)

// VerifNodes returns the known nodes of a resource with their breaker.
func VerifNodes(res string) map[string]circuitbreaker.CircuitBreaker {
	return getNodeBreakersOfResource(res)
}

// VerifResetRuntime forgets recyclers and retryers (they cache rule parameters) and node
// breakers; rules are cleared separately through ClearRules.
func VerifResetRuntime() {
	recyclerMutex.Lock()
	recyclers = make(map[string]*Recycler)
	recyclerMutex.Unlock()
	retryerMutex.Lock()
	retryers = make(map[string]*Retryer)
	retryerMutex.Unlock()
	updateMux.Lock()
	nodeBreakers = make(map[string]map[string]circuitbreaker.CircuitBreaker)
	updateMux.Unlock()
}

var barrierSeq int

// VerifBarrier waits until the two background consumers have processed everything that was
// queued before the call: a marker task is queued behind it and the call returns when the
// marker's effect is visible. No deadline is involved.
func VerifBarrier() {
	barrierSeq++
	defer vtime.VerifDropZeroDelay() // the marker's own timers are not part of the history
	marker := []string{string(rune('A'+barrierSeq%26)) + "#barrier"}
	const res = "__verif_barrier__"
	getRecyclerOfResource(res)
	getRetryerOfResource(res)
	recyclerCh <- task{marker, res}
	retryerCh <- task{marker, res}
	for {
		r := getRecyclerOfResource(res)
		r.mtx.Lock()
		_, ok1 := r.status[marker[0]]
		r.mtx.Unlock()
		y := getRetryerOfResource(res)
		y.mtx.Lock()
		_, ok2 := y.counts[marker[0]]
		y.mtx.Unlock()
		if ok1 && ok2 {
			r.mtx.Lock()
			delete(r.status, marker[0])
			r.mtx.Unlock()
			y.mtx.Lock()
			delete(y.counts, marker[0])
			y.mtx.Unlock()
			return
		}
		runtime.Gosched()
	}
}

// VerifRecyclerStatus copies the recycler's bookkeeping for a resource.
func VerifRecyclerStatus(res string) map[string]bool {
	r := getRecyclerOfResource(res)
	r.mtx.Lock()
	defer r.mtx.Unlock()
	out := map[string]bool{}
	for k, v := range r.status {
		out[k] = v
	}
	return out
}

// VerifRecover is the acknowledgement a successful completion on node gives to the resource's recycler
// (what MetricStatSlot.OnCompleted does for a request without error).
func VerifRecover(res, node string) {
	getRecyclerOfResource(res).recover(node)
}
