//go:build verif

package flow

// Accessors added by the verification overlay (read only).

import (
	"sync/atomic"
	"unsafe"

	sbase "github.com/alibaba/sentinel-golang/core/stat/base"
)

// VerifController describes one installed traffic shaping controller.
type VerifController struct {
	Rule       *Rule
	Reuse      bool
	Standalone *sbase.BucketLeapArray // non nil when the rule owns its statistic
	TC         *TrafficShapingController
}

// VerifControllers lists the controllers of res in enforcement order.
func VerifControllers(res string) []VerifController {
	tcMux.RLock()
	defer tcMux.RUnlock()
	var out []VerifController
	for _, tc := range tcMap[res] {
		v := VerifController{Rule: tc.rule, Reuse: tc.boundStat.reuseResourceStat, TC: tc}
		if arr, ok := tc.boundStat.writeOnlyMetric.(*sbase.BucketLeapArray); ok {
			v.Standalone = arr
		}
		out = append(out, v)
	}
	return out
}

// VerifLastPassed reads the throttling checker's last pass time (ns).
func (c *ThrottlingChecker) VerifLastPassed() int64 { return atomic.LoadInt64(&c.lastPassedTime) }

// VerifLastPassedAddr is the address of that word.
func (c *ThrottlingChecker) VerifLastPassedAddr() unsafe.Pointer {
	return unsafe.Pointer(&c.lastPassedTime)
}

// VerifWarmUp is a copy of a warm-up calculator's private state.
type VerifWarmUp struct {
	Stored       int64
	LastFilled   uint64
	WarningToken uint64
	MaxToken     uint64
	Slope        float64
}

// VerifWarmUpOf returns the warm-up state of a controller (ok=false if it has none).
func VerifWarmUpOf(tc *TrafficShapingController) (VerifWarmUp, bool) {
	c, ok := tc.flowCalculator.(*WarmUpTrafficShapingCalculator)
	if !ok {
		return VerifWarmUp{}, false
	}
	return VerifWarmUp{atomic.LoadInt64(&c.storedTokens), atomic.LoadUint64(&c.lastFilledTime), c.warningToken, c.maxToken, c.slope}, true
}
