//go:build verif

package cache

import "sync/atomic"

// VerifKV is one cache entry (oldest first in VerifDump).
type VerifKV struct {
	K interface{}
	V int64
}

// VerifDump lists the entries of a counter cache, oldest to newest, without touching the
// recency order and without taking the (shimmed) lock: harness use only, while no managed
// thread is inside the cache.
func VerifDump(c ConcurrentCounterCache) []VerifKV {
	m, ok := c.(*LruCacheMap)
	if !ok || m == nil || m.lru == nil {
		return nil
	}
	var out []VerifKV
	for _, k := range m.lru.Keys() {
		v, _ := m.lru.Peek(k)
		kv := VerifKV{K: k}
		if p, ok := v.(*int64); ok && p != nil {
			kv.V = atomic.LoadInt64(p)
		}
		out = append(out, kv)
	}
	return out
}
