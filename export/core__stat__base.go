//go:build verif

package base

// Accessors added by the verification overlay (read / drive only, no logic of their own).

import (
	"sync/atomic"
	"unsafe"

	"github.com/alibaba/sentinel-golang/core/base"
)

func (bla *BucketLeapArray) VerifAddCountWithTime(now uint64, event base.MetricEvent, count int64) {
	bla.addCountWithTime(now, event, count)
}

func (bla *BucketLeapArray) VerifUpdateConcurrencyWithTime(now uint64, c int32) {
	bla.updateConcurrencyWithTime(now, c)
}

// VerifBucket is a plain copy of one slot.
type VerifBucket struct {
	Start   uint64
	Counter [base.MetricEventTotal]int64
	MinRt   int64
	MaxConc int32
}

// VerifDump copies every slot (in slot order) and the try-lock word, using real atomics.
func (bla *BucketLeapArray) VerifDump() (buckets []VerifBucket, lockWord int32) {
	la := &bla.data
	for i := 0; i < la.array.length; i++ {
		ww := la.array.data[i]
		var b VerifBucket
		if ww != nil {
			b.Start = atomic.LoadUint64(&ww.BucketStart)
			if mb, ok := ww.Value.RawLoad().(*MetricBucket); ok && mb != nil {
				for e := 0; e < int(base.MetricEventTotal); e++ {
					b.Counter[e] = atomic.LoadInt64(&mb.counter[e])
				}
				b.MinRt = atomic.LoadInt64(&mb.minRt)
				b.MaxConc = atomic.LoadInt32(&mb.maxConcurrency)
			}
		}
		buckets = append(buckets, b)
	}
	lockWord = atomic.LoadInt32((*int32)(unsafe.Pointer(&la.updateLock)))
	return
}

// VerifStartsOf returns the bucket starts of a list of wraps (as returned by Values).
func VerifStartsOf(ws []*BucketWrap) []uint64 {
	out := make([]uint64, 0, len(ws))
	for _, w := range ws {
		out = append(out, atomic.LoadUint64(&w.BucketStart))
	}
	return out
}

func (m *SlidingWindowMetric) VerifGetSumWithTime(now uint64, event base.MetricEvent) int64 {
	return m.getSumWithTime(now, event)
}

// VerifStartAddrs returns the address of every slot's BucketStart word (slot order).
func (bla *BucketLeapArray) VerifStartAddrs() []unsafe.Pointer {
	la := &bla.data
	out := make([]unsafe.Pointer, 0, la.array.length)
	for i := 0; i < la.array.length; i++ {
		out = append(out, unsafe.Pointer(&la.array.data[i].BucketStart))
	}
	return out
}

// VerifLockAddr returns the address of the update try-lock word.
func (bla *BucketLeapArray) VerifLockAddr() unsafe.Pointer {
	return unsafe.Pointer(&bla.data.updateLock)
}

// VerifRegion is a named piece of memory (for the explorer's stable location ids).
type VerifRegion struct {
	Base unsafe.Pointer
	Size uintptr
}

// VerifRegions lists the array's memory in a deterministic order: the LeapArray header
// (with the try-lock), the slot pointer table, then each slot's wrap and metric bucket.
func (bla *BucketLeapArray) VerifRegions() []VerifRegion {
	la := &bla.data
	out := []VerifRegion{
		{unsafe.Pointer(la), unsafe.Sizeof(*la)},
		{la.array.base, uintptr(la.array.length) * unsafe.Sizeof(uintptr(0))},
	}
	for i := 0; i < la.array.length; i++ {
		ww := la.array.data[i]
		out = append(out, VerifRegion{unsafe.Pointer(ww), unsafe.Sizeof(*ww)})
		if mb, ok := ww.Value.RawLoad().(*MetricBucket); ok && mb != nil {
			out = append(out, VerifRegion{unsafe.Pointer(mb), unsafe.Sizeof(*mb)})
		}
	}
	return out
}

// ---- generic LeapArray accessors (circuit breaker statistics) ----

func (la *LeapArray) VerifWraps() []*BucketWrap {
	out := make([]*BucketWrap, 0, la.array.length)
	for i := 0; i < la.array.length; i++ {
		out = append(out, la.array.data[i])
	}
	return out
}

func (la *LeapArray) VerifLockWord() int32 {
	return atomic.LoadInt32((*int32)(unsafe.Pointer(&la.updateLock)))
}

func (la *LeapArray) VerifRegions() []VerifRegion {
	out := []VerifRegion{
		{unsafe.Pointer(la), unsafe.Sizeof(*la)},
		{la.array.base, uintptr(la.array.length) * unsafe.Sizeof(uintptr(0))},
	}
	for i := 0; i < la.array.length; i++ {
		ww := la.array.data[i]
		out = append(out, VerifRegion{unsafe.Pointer(ww), unsafe.Sizeof(*ww)})
	}
	return out
}
