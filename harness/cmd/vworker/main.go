// vworker runs one shard of one property check (or replays a recorded violation).
package main

import (
	"encoding/json"
	"flag"
	"fmt"
	"os"
	"time"

	"verifharness/props"
	_ "verifharness/props/all"
	"verifharness/report"
)

func main() {
	prop := flag.String("prop", "", "property id")
	tier := flag.String("tier", "quick", "quick|thorough")
	shard := flag.Int("shard", 0, "")
	nshards := flag.Int("nshards", 1, "")
	out := flag.String("out", "-", "result file")
	seed := flag.Int64("seed", 0, "")
	budget := flag.Duration("budget", 0, "internal time budget (0 = none)")
	replay := flag.String("replay", "", "replay file")
	flag.Parse()
	p := props.Registry[*prop]
	if p == nil {
		fmt.Fprintln(os.Stderr, "unknown property", *prop)
		os.Exit(2)
	}
	c := &props.Ctx{Tier: *tier, Shard: *shard, NShards: *nshards, Seed: *seed, R: report.New(*prop, *tier, *shard, *nshards)}
	if *budget > 0 {
		c.Deadline = time.Now().Add(*budget)
	}
	if *replay != "" {
		b, err := os.ReadFile(*replay)
		if err != nil {
			fmt.Fprintln(os.Stderr, err)
			os.Exit(2)
		}
		var doc struct {
			Replay json.RawMessage `json:"replay"`
		}
		if err := json.Unmarshal(b, &doc); err != nil {
			fmt.Fprintln(os.Stderr, err)
			os.Exit(2)
		}
		if p.Replay == nil {
			fmt.Fprintln(os.Stderr, "no replay support for", *prop)
			os.Exit(2)
		}
		bad, what := p.Replay(c, doc.Replay)
		if bad {
			fmt.Printf("REPLAY property=%s reproduced: %s\n", *prop, what)
			os.Exit(1)
		}
		fmt.Printf("REPLAY property=%s did not violate\n", *prop)
		return
	}
	p.Run(c)
	if err := c.R.Write(*out); err != nil {
		fmt.Fprintln(os.Stderr, err)
		os.Exit(2)
	}
}
