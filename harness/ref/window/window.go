// Package window is the boring reference model of sliding-window statistics: a list of
// every recorded event; each read recomputes from the list. Nothing is ever dropped or
// reset. A bucket is [s, s+bl) with s aligned to bl; the window of a view of interval I'
// over an array of bucket length bl, read at `now`, is the set of bucket starts in
// [cur-I'+bl, cur] with cur = now - now%bl (signed arithmetic: no wrap-around near zero).
package window

const (
	EvPass = iota
	EvBlock
	EvComplete
	EvError
	EvRt
	EvConc // concurrency sample (UpdateConcurrency)
)

const DefaultMaxRt = 60000

type Event struct {
	T   int64
	Ev  int
	Amt int64
}

type Model struct {
	BL     int64 // bucket length of the underlying array
	Events []Event
}

func (m *Model) Add(t int64, ev int, amt int64) { m.Events = append(m.Events, Event{t, ev, amt}) }

func (m *Model) Start(t int64) int64 { return t - t%m.BL }

// Range returns the inclusive range of bucket starts of the window of length interval ending
// at the bucket of now.
func (m *Model) Range(now, interval int64) (lo, hi int64) {
	hi = m.Start(now)
	lo = hi - interval + m.BL
	return
}

func (m *Model) in(e Event, lo, hi int64) bool {
	s := m.Start(e.T)
	return s >= lo && s <= hi
}

// Sum of amounts of event ev in the window.
func (m *Model) Sum(now, interval int64, ev int) int64 {
	lo, hi := m.Range(now, interval)
	var s int64
	for _, e := range m.Events {
		if e.Ev == ev && m.in(e, lo, hi) {
			s += e.Amt
		}
	}
	return s
}

// MinRt over the window: minimum single rt sample, DefaultMaxRt if none.
func (m *Model) MinRt(now, interval int64) int64 {
	lo, hi := m.Range(now, interval)
	r := int64(DefaultMaxRt)
	for _, e := range m.Events {
		if e.Ev == EvRt && m.in(e, lo, hi) && e.Amt < r {
			r = e.Amt
		}
	}
	return r
}

// MaxConc over the window: maximum concurrency sample, 0 if none.
func (m *Model) MaxConc(now, interval int64) int64 {
	lo, hi := m.Range(now, interval)
	var r int64
	for _, e := range m.Events {
		if e.Ev == EvConc && m.in(e, lo, hi) && e.Amt > r {
			r = e.Amt
		}
	}
	return r
}

// BucketSums returns, for every bucket start in the window that holds events of ev, its sum.
func (m *Model) BucketSums(now, interval int64, ev int) map[int64]int64 {
	lo, hi := m.Range(now, interval)
	out := map[int64]int64{}
	for _, e := range m.Events {
		if e.Ev == ev && m.in(e, lo, hi) {
			out[m.Start(e.T)] += e.Amt
		}
	}
	return out
}

// MaxOfSingleBucket of ev in the window.
func (m *Model) MaxOfSingleBucket(now, interval int64, ev int) int64 {
	var r int64
	for _, v := range m.BucketSums(now, interval, ev) {
		if v > r {
			r = v
		}
	}
	return r
}

// Recent returns the events whose bucket start is >= cut (for canonical keys).
func (m *Model) Recent(cut int64) []Event {
	var out []Event
	for _, e := range m.Events {
		if m.Start(e.T) >= cut {
			out = append(out, e)
		}
	}
	return out
}
