// Package report is the worker -> driver result format (one JSON document per shard).
package report

import (
	"encoding/json"
	"fmt"
	"hash/fnv"
	"os"
	"sort"
	"time"
)

type Violation struct {
	Signature string      `json:"signature"` // input / call site / history class that fails
	What      string      `json:"what"`
	Scenario  string      `json:"scenario"`
	Replay    interface{} `json:"replay"` // op list or schedule, enough to re-execute
}

type Shard struct {
	Property    string                 `json:"property"`
	Tier        string                 `json:"tier"`
	Shard       int                    `json:"shard"`
	NShards     int                    `json:"nshards"`
	States      int64                  `json:"states"`
	Transitions int64                  `json:"transitions"`
	Evaluations int64                  `json:"evaluations"`
	Traces      int64                  `json:"traces_validated_against_impl"`
	Distinct    []string               `json:"distinct"` // hashed distinct non-trivial outcome keys
	Samples     []interface{}          `json:"samples"`
	Exhaustive  bool                   `json:"exhaustive"`
	Caps        []string               `json:"caps,omitempty"`
	HarnessErrs []string               `json:"harness_errors,omitempty"`
	Violations  []Violation            `json:"violations,omitempty"`
	Bounds      map[string]interface{} `json:"bounds,omitempty"`
	Scenarios   []interface{}          `json:"scenarios,omitempty"`
	WallS       float64                `json:"wall_s"`

	distinct map[uint64]struct{}
	start    time.Time
	sigSeen  map[string]int
}

func New(prop, tier string, shard, nshards int) *Shard {
	return &Shard{Property: prop, Tier: tier, Shard: shard, NShards: nshards, Exhaustive: true,
		distinct: map[uint64]struct{}{}, start: time.Now(), Bounds: map[string]interface{}{}, sigSeen: map[string]int{}}
}

// Outcome records one non-trivial outcome key for the distinct count.
func (s *Shard) Outcome(key string) {
	h := fnv.New64a()
	h.Write([]byte(key))
	s.distinct[h.Sum64()] = struct{}{}
}

func (s *Shard) Sample(v interface{}) {
	if len(s.Samples) < 6 {
		s.Samples = append(s.Samples, v)
	}
}

func (s *Shard) Cap(what string) {
	s.Exhaustive = false
	for _, c := range s.Caps {
		if c == what {
			return
		}
	}
	s.Caps = append(s.Caps, what)
}

func (s *Shard) HarnessError(what string) {
	s.Exhaustive = false
	if len(s.HarnessErrs) < 20 {
		s.HarnessErrs = append(s.HarnessErrs, what)
	}
}

// Violate records a violation; at most 3 replays are kept per signature.
func (s *Shard) Violate(v Violation) {
	s.sigSeen[v.Signature]++
	if s.sigSeen[v.Signature] > 3 {
		return
	}
	s.Violations = append(s.Violations, v)
}

func (s *Shard) NViolations() int { return len(s.Violations) }

func (s *Shard) Write(path string) error {
	s.WallS = time.Since(s.start).Seconds()
	s.Distinct = s.Distinct[:0]
	for k := range s.distinct {
		s.Distinct = append(s.Distinct, fmt.Sprintf("%016x", k))
	}
	sort.Strings(s.Distinct)
	if len(s.Distinct) > 200000 {
		s.Distinct = s.Distinct[:200000]
	}
	b, err := json.Marshal(s)
	if err != nil {
		return err
	}
	if path == "" || path == "-" {
		_, err = os.Stdout.Write(append(b, '\n'))
		return err
	}
	return os.WriteFile(path, b, 0o644)
}
