//go:build !race

package racecheck

const Enabled = false

func Errors() int { return 0 }
