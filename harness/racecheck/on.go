//go:build race

package racecheck

import "runtime"

// Enabled reports whether the binary was built with the race detector.
const Enabled = true

// Errors is the number of race reports so far.
func Errors() int { return runtime.RaceErrors() }
