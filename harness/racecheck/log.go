// Package racecheck reads the Go race detector's verdicts for the explorer: the number of
// reports (runtime.RaceErrors) and the text of new reports from the GORACE log file.
package racecheck

import (
	"fmt"
	"os"
	"regexp"
	"sort"
	"strings"
)

var offset int64

// logPath derives the detector's log file from GORACE (log_path=<prefix> -> <prefix>.<pid>).
func logPath() string {
	for _, f := range strings.Fields(os.Getenv("GORACE")) {
		if strings.HasPrefix(f, "log_path=") {
			return fmt.Sprintf("%s.%d", strings.TrimPrefix(f, "log_path="), os.Getpid())
		}
	}
	return ""
}

// NewText returns what the detector has written since the last call.
func NewText() string {
	p := logPath()
	if p == "" {
		return ""
	}
	b, err := os.ReadFile(p)
	if err != nil || int64(len(b)) <= offset {
		return ""
	}
	s := string(b[offset:])
	offset = int64(len(b))
	return s
}

var frameRe = regexp.MustCompile(`(?m)^\s+(github\.com/alibaba/sentinel-golang/[^\s(]+)\(`)
var fileRe = regexp.MustCompile(`/repo/([^\s:]+):(\d+)`)

// Report is one parsed race report.
type Report struct {
	Funcs []string // innermost repo function of each of the two accesses
	Files []string
	Text  string
}

// Parse splits detector output into reports and extracts, for each of the two accesses, the
// innermost frame that lies in the repository (shim frames are skipped).
func Parse(text string) []Report {
	var out []Report
	for _, chunk := range strings.Split(text, "==================") {
		if !strings.Contains(chunk, "DATA RACE") {
			continue
		}
		r := Report{Text: strings.TrimSpace(chunk)}
		// the two access stacks are the first two paragraphs
		paras := strings.Split(chunk, "\n\n")
		n := 0
		for _, p := range paras {
			if !(strings.Contains(p, " at 0x") && (strings.Contains(p, "by goroutine") || strings.Contains(p, "by main"))) {
				continue
			}
			if n >= 2 {
				break
			}
			n++
			fn, file := "?", "?"
			lines := strings.Split(p, "\n")
			for i, l := range lines {
				m := frameRe.FindStringSubmatch(l)
				if m == nil || strings.Contains(m[1], "/verifshim/") {
					continue
				}
				fn = strings.TrimPrefix(m[1], "github.com/alibaba/sentinel-golang/")
				if i+1 < len(lines) {
					if fm := fileRe.FindStringSubmatch(lines[i+1]); fm != nil {
						file = fm[1] + ":" + fm[2]
					}
				}
				break
			}
			r.Funcs = append(r.Funcs, fn)
			r.Files = append(r.Files, file)
		}
		out = append(out, r)
	}
	return out
}

// Signature is the order-independent pair of access functions.
func (r Report) Signature() string {
	f := append([]string(nil), r.Funcs...)
	sort.Strings(f)
	return strings.Join(f, " <-> ")
}
