// Package c14: reloading rules does not disturb the runtime state of unchanged rules.
//
// Engine B, metamorphic: for every subject rule kind, every traffic history up to a depth
// bound, every position at which a reload is inserted, every edit of the rest of the rule
// list and both load paths, the decision trace (decisions and requested waits) on the
// subject's resource WITH the reload is compared with the trace of the same history WITHOUT
// it. No expected values are written down: the implementation is its own reference.
// Second clause (modified rule, unchanged statistic parameters, keeps its statistics): a small
// count reference.
package c14

import (
	"encoding/json"
	"errors"
	"fmt"
	"strings"
	"time"

	sentinel "github.com/alibaba/sentinel-golang/api"
	"github.com/alibaba/sentinel-golang/core/base"
	cb "github.com/alibaba/sentinel-golang/core/circuitbreaker"
	"github.com/alibaba/sentinel-golang/core/flow"
	"github.com/alibaba/sentinel-golang/core/hotspot"
	"github.com/alibaba/sentinel-golang/core/system_metric"

	"verifharness/env"
	"verifharness/props"
	"verifharness/report"
)

const T0 = int64(1700000000123)

var bizErr = errors.New("biz")

// a subject describes one rule kind with runtime state
type subject struct {
	Name string
	// ops of the traffic alphabet (names); apply executes op i and returns what was observed
	Ops   []string
	Apply func(st *runState, op int) string
	// load installs the rule list named by edit (see edits) through the given path
	Load func(edit string, perResource bool)
	// Edits that must be invisible for this subject; the first one is the initial list.
	Edits []string
	// Others: names of the other rules available for the wide enumeration of lists (see wideLists)
	Others []string
	Init   []string // possible initial lists
}

type runState struct {
	live   []*base.SentinelEntry
	sleeps []time.Duration
}

func (st *runState) waited(from int) int64 {
	var w int64
	for _, d := range st.sleeps[from:] {
		w += int64(d)
	}
	return w
}

func reqObs(st *runState, res string, opts ...sentinel.EntryOption) string {
	n := len(st.sleeps)
	e, blk := sentinel.Entry(res, opts...)
	if blk != nil {
		return "B"
	}
	e.Exit()
	return fmt.Sprintf("P%d", st.waited(n))
}

func tickOp(ms int64) func() string {
	return func() string { env.Clock.AdvanceMs(ms); return "" }
}

// ---- rule constructors: X is the subject rule, always built fresh and field-for-field equal ----

// names splits an edit such as "[Y,X,Z]" into rule names.
func names(edit string) []string {
	return strings.Split(strings.Trim(edit, "[]"), ",")
}

// Rule names: X the subject; X' a modified X with the same statistic parameters; Y / Y' another rule
// and its modification; W / W' a sibling with the SAME statistic parameters as X (so its statistic is
// reusable for X and vice versa) and its modification; Z a rule with different statistic parameters.
// Everything but X is permissive, so the decisions observed are X's alone.
func flowRules(edit string, x func() *flow.Rule) []*flow.Rule {
	var out []*flow.Rule
	for _, n := range names(edit) {
		var r *flow.Rule
		switch n {
		case "X":
			r = x()
		case "X'":
			r = x()
			r.ID, r.Threshold = "X'", 1e9
		case "Y":
			r = &flow.Rule{ID: "Y", Resource: "r", Threshold: 1e9}
		case "Y'":
			r = &flow.Rule{ID: "Y", Resource: "r", Threshold: 3e9}
		case "W":
			r = &flow.Rule{ID: "W", Resource: "r", Threshold: 5e8, StatIntervalInMs: x().StatIntervalInMs}
		case "W'":
			r = &flow.Rule{ID: "W", Resource: "r", Threshold: 6e8, StatIntervalInMs: x().StatIntervalInMs}
		case "Z":
			r = &flow.Rule{ID: "Z", Resource: "r", Threshold: 2e9, StatIntervalInMs: 2000}
		default:
			panic("unknown rule name " + n)
		}
		out = append(out, r)
	}
	return out
}

func loadFlow(rs []*flow.Rule, perRes bool) {
	other := &flow.Rule{ID: "other", Resource: "other", Threshold: 5}
	var err error
	if perRes {
		_, err = flow.LoadRulesOfResource("r", rs)
	} else {
		_, err = flow.LoadRules(append(append([]*flow.Rule{}, rs...), other))
	}
	if err != nil {
		panic(err)
	}
}

func subjects() []*subject {
	var out []*subject

	// 1. flow reject rule with a standalone statistic window (3000 ms does not tile 10000 ms)
	fx := func() *flow.Rule { return &flow.Rule{ID: "X", Resource: "r", Threshold: 2, StatIntervalInMs: 3000} }
	out = append(out, &subject{
		Name: "flow-reject-standalone-window",
		Ops:  []string{"req", "tick(1)", "tick(1000)", "tick(3000)"},
		Apply: func(st *runState, op int) string {
			return []func() string{func() string { return reqObs(st, "r") }, tickOp(1), tickOp(1000), tickOp(3000)}[op]()
		},
		Load:   func(edit string, per bool) { loadFlow(flowRules(edit, fx), per) },
		Init:   []string{"[X]", "[Y,X]", "[X,Y]"},
		Edits:  []string{"[X]", "[Y,X]", "[X,Y]", "[Y',X]", "[X,Y']", "[Y,X,Z]", "[X,X]", "[X',X]", "[X,X']"},
		Others: []string{"Y", "Y'", "W", "W'", "Z", "X'"},
	})
	// 2. flow throttling rule (2 per second, queueing up to 600 ms)
	tx := func() *flow.Rule {
		return &flow.Rule{ID: "X", Resource: "r", ControlBehavior: flow.Throttling, Threshold: 2, MaxQueueingTimeMs: 600}
	}
	out = append(out, &subject{
		Name: "flow-throttling",
		Ops:  []string{"req", "tick(1)", "tick(300)", "tick(1000)"},
		Apply: func(st *runState, op int) string {
			return []func() string{func() string { return reqObs(st, "r") }, tickOp(1), tickOp(300), tickOp(1000)}[op]()
		},
		Load:   func(edit string, per bool) { loadFlow(flowRules(edit, tx), per) },
		Init:   []string{"[X]", "[Y,X]"},
		Edits:  []string{"[X]", "[Y,X]", "[X,Y]", "[Y',X]", "[Y,X,Z]"},
		Others: []string{"Y", "Y'", "W", "W'", "Z"},
	})
	// 2b. the same with a memory-adaptive threshold (memory reading below the low water mark: 2 per second);
	// every field of such a rule differs from a plain rule's zero values
	mx := func() *flow.Rule {
		return &flow.Rule{ID: "X", Resource: "r", TokenCalculateStrategy: flow.MemoryAdaptive, ControlBehavior: flow.Throttling, MaxQueueingTimeMs: 600,
			LowMemUsageThreshold: 2, HighMemUsageThreshold: 1, MemLowWaterMarkBytes: 1024, MemHighWaterMarkBytes: 2048}
	}
	out = append(out, &subject{
		Name: "flow-throttling-memory-adaptive",
		Ops:  []string{"req", "tick(1)", "tick(300)", "tick(1000)"},
		Apply: func(st *runState, op int) string {
			return []func() string{func() string { return reqObs(st, "r") }, tickOp(1), tickOp(300), tickOp(1000)}[op]()
		},
		Load: func(edit string, per bool) {
			system_metric.SetSystemMemoryUsage(0)
			loadFlow(flowRules(edit, mx), per)
		},
		Init:   []string{"[X]", "[Y,X]"},
		Edits:  []string{"[X]", "[Y,X]", "[X,Y]", "[Y',X]", "[Y,X,Z]"},
		Others: []string{"Y", "Y'", "W", "W'", "Z"},
	})
	// 3. flow warm-up rule
	wx := func() *flow.Rule {
		return &flow.Rule{ID: "X", Resource: "r", TokenCalculateStrategy: flow.WarmUp, Threshold: 10, WarmUpPeriodSec: 2, WarmUpColdFactor: 3}
	}
	out = append(out, &subject{
		Name: "flow-warm-up",
		Ops:  []string{"burst(6)", "tick(500)", "tick(1000)"},
		Apply: func(st *runState, op int) string {
			if op == 0 {
				s := ""
				for i := 0; i < 6; i++ {
					s += reqObs(st, "r")
				}
				return s
			}
			return []func() string{nil, tickOp(500), tickOp(1000)}[op]()
		},
		Load:   func(edit string, per bool) { loadFlow(flowRules(edit, wx), per) },
		Init:   []string{"[X]", "[X,Y]"},
		Edits:  []string{"[X]", "[Y,X]", "[X,Y]", "[X,Y']", "[Y,X,Z]"},
		Others: []string{"Y", "Y'", "W", "W'", "Z", "X'"},
	})
	// 4. circuit breaker (error count 1, retry 1000 ms): open / half-open state and deadline
	// second variant: a bucket count that does not divide the interval (the breaker then uses one bucket); the
	// rule as written is what "field-for-field identical" refers to
	// third variant: the same breaker as an error-ratio rule (one failing request is a ratio of 1 >= 0.5); its
	// never-tripping relatives differ in the minimum request amount instead of the threshold
	for _, variant := range []int{0, 3, -1} {
		buckets, ratio := uint32(0), variant < 0
		if variant > 0 {
			buckets = uint32(variant)
		}
		never := func(r *cb.Rule, id string, v float64) {
			r.Id = id
			if ratio {
				r.MinRequestAmount = uint64(v)
			} else {
				r.Threshold = v
			}
		}
		bx := func() *cb.Rule {
			if ratio {
				return &cb.Rule{Id: "X", Resource: "r", Strategy: cb.ErrorRatio, RetryTimeoutMs: 1000, MinRequestAmount: 1, StatIntervalMs: 5000, Threshold: 0.5}
			}
			return &cb.Rule{Id: "X", Resource: "r", Strategy: cb.ErrorCount, RetryTimeoutMs: 1000, MinRequestAmount: 1, StatIntervalMs: 5000, StatSlidingWindowBucketCount: buckets, Threshold: 1}
		}
		cbRules := func(edit string) []*cb.Rule {
			var out []*cb.Rule
			for _, n := range names(edit) {
				var r *cb.Rule
				switch n {
				case "X":
					r = bx()
				case "X'":
					r = bx()
					never(r, "X'", 1e9)
				case "Y":
					r = &cb.Rule{Id: "Y", Resource: "r", Strategy: cb.ErrorCount, RetryTimeoutMs: 1000, MinRequestAmount: 1, StatIntervalMs: 2000, Threshold: 1e9}
				case "Y'":
					r = &cb.Rule{Id: "Y", Resource: "r", Strategy: cb.ErrorCount, RetryTimeoutMs: 1000, MinRequestAmount: 1, StatIntervalMs: 2000, Threshold: 2e9}
				case "W":
					r = bx()
					never(r, "W", 5e8)
				case "W'":
					r = bx()
					never(r, "W", 6e8)
				default:
					panic("unknown rule name " + n)
				}
				out = append(out, r)
			}
			return out
		}
		out = append(out, &subject{
			Name: map[int]string{0: "circuit-breaker", 3: "circuit-breaker-odd-buckets", -1: "circuit-breaker-error-ratio"}[variant],
			Ops:  []string{"req-ok", "req-err", "start", "finish-ok", "tick(400)", "tick(1000)"},
			Apply: func(st *runState, op int) string {
				switch op {
				case 0, 1:
					e, blk := sentinel.Entry("r")
					if blk != nil {
						return "B"
					}
					if op == 1 {
						e.Exit(base.WithError(bizErr))
					} else {
						e.Exit()
					}
					return "P"
				case 2:
					if len(st.live) >= 2 {
						return "-"
					}
					e, blk := sentinel.Entry("r")
					if blk != nil {
						return "B"
					}
					st.live = append(st.live, e)
					return "P"
				case 3:
					if len(st.live) == 0 {
						return "-"
					}
					st.live[0].Exit()
					st.live = st.live[1:]
					return "x"
				case 4:
					return tickOp(400)()
				}
				return tickOp(1000)()
			},
			Load: func(edit string, per bool) {
				rs := cbRules(edit)
				var err error
				if per {
					_, err = cb.LoadRulesOfResource("r", rs)
				} else {
					_, err = cb.LoadRules(append(append([]*cb.Rule{}, rs...), &cb.Rule{Id: "o", Resource: "other", Strategy: cb.ErrorCount, RetryTimeoutMs: 10, StatIntervalMs: 1000, Threshold: 5}))
				}
				if err != nil {
					panic(err)
				}
			},
			Init: []string{"[X]", "[Y,X]"},
			// the duplicate [X,X] only for the count breakers: the second copy is a NEW breaker with empty statistics,
			// and an error-ratio breaker with fewer requests behind it legitimately trips earlier than the old one
			// (1 of 2 instead of 1 of 3); a count breaker trips on the same request with or without the older ones
			Edits: map[bool][]string{false: {"[X]", "[Y,X]", "[X,Y]", "[Y',X]", "[X,X]", "[X',X]", "[X,X']"},
				true: {"[X]", "[Y,X]", "[X,Y]", "[Y',X]", "[X',X]", "[X,X']"}}[ratio],
			Others: []string{"Y", "Y'", "W", "W'", "X'"},
		})
	}
	// 5/6. hotspot QPS tokens and hotspot concurrency counters
	hsRules := func(edit string, x func() *hotspot.Rule) []*hotspot.Rule {
		var out []*hotspot.Rule
		for _, n := range names(edit) {
			var r *hotspot.Rule
			switch n {
			case "X":
				r = x()
			case "X'":
				r = x()
				r.ID, r.Threshold = "X'", 1000000000
			case "Y":
				r = &hotspot.Rule{ID: "Y", Resource: "r", MetricType: hotspot.QPS, Threshold: 1000000000, DurationInSec: 3}
			case "Y'":
				r = &hotspot.Rule{ID: "Y", Resource: "r", MetricType: hotspot.QPS, Threshold: 2000000000, DurationInSec: 3}
			case "W":
				r = x()
				r.ID, r.Threshold = "W", 500000000
			case "W'":
				r = x()
				r.ID, r.Threshold = "W", 600000000
			default:
				panic("unknown rule name " + n)
			}
			out = append(out, r)
		}
		return out
	}
	loadHs := func(rs []*hotspot.Rule, per bool) {
		var err error
		if per {
			_, err = hotspot.LoadRulesOfResource("r", rs)
		} else {
			_, err = hotspot.LoadRules(append(append([]*hotspot.Rule{}, rs...), &hotspot.Rule{ID: "o", Resource: "other", MetricType: hotspot.QPS, Threshold: 1, DurationInSec: 1}))
		}
		if err != nil {
			panic(err)
		}
	}
	qx := func() *hotspot.Rule {
		return &hotspot.Rule{ID: "X", Resource: "r", MetricType: hotspot.QPS, Threshold: 2, DurationInSec: 1}
	}
	out = append(out, &subject{
		Name: "hotspot-qps",
		Ops:  []string{"req(A)", "req(B)", "tick(400)", "tick(1100)"},
		Apply: func(st *runState, op int) string {
			return []func() string{
				func() string { return reqObs(st, "r", sentinel.WithArgs("A")) },
				func() string { return reqObs(st, "r", sentinel.WithArgs("B")) }, tickOp(400), tickOp(1100)}[op]()
		},
		Load: func(edit string, per bool) { loadHs(hsRules(edit, qx), per) },
		Init: []string{"[X]", "[Y,X]"},
		// no "[X,X]" here: a duplicate is a rule of its own whose token bucket starts at the reload, so
		// its refill phase differs from X's and it may legitimately reject where X alone admits
		Edits:  []string{"[X]", "[Y,X]", "[X,Y]", "[Y',X]", "[X',X]", "[X,X']"},
		Others: []string{"Y", "Y'", "W", "W'", "X'"},
	})
	cx := func() *hotspot.Rule {
		return &hotspot.Rule{ID: "X", Resource: "r", MetricType: hotspot.Concurrency, Threshold: 1}
	}
	out = append(out, &subject{
		Name: "hotspot-concurrency",
		Ops:  []string{"start(A)", "start(B)", "finish-oldest"},
		Apply: func(st *runState, op int) string {
			switch op {
			case 0, 1:
				if len(st.live) >= 3 {
					return "-"
				}
				e, blk := sentinel.Entry("r", sentinel.WithArgs([]string{"A", "B"}[op]))
				if blk != nil {
					return "B"
				}
				st.live = append(st.live, e)
				return "P"
			}
			if len(st.live) == 0 {
				return "-"
			}
			st.live[0].Exit()
			st.live = st.live[1:]
			return "x"
		},
		Load:   func(edit string, per bool) { loadHs(hsRules(edit, cx), per) },
		Init:   []string{"[X]", "[Y,X]"},
		Edits:  []string{"[X]", "[Y,X]", "[X,Y]", "[Y',X]", "[X,X]", "[X',X]", "[X,X']"},
		Others: []string{"Y", "Y'", "W", "W'", "X'"},
	})
	return out
}

// runTrace executes history; if reloadAt >= 0 the edit is loaded before operation reloadAt
// (reloadAt == len(history) means after the last one, which cannot change the trace).
func runTrace(s *subject, init string, history []int, reloadAt int, edit string, perRes bool) []string {
	env.ResetAll(env.DefaultGeometry, T0)
	st := &runState{}
	env.Clock.OnSleep = func(d time.Duration) { st.sleeps = append(st.sleeps, d) }
	s.Load(init, false)
	var tr []string
	for i, op := range history {
		if i == reloadAt {
			s.Load(edit, perRes)
		}
		tr = append(tr, s.Apply(st, op))
	}
	for _, e := range st.live {
		e.Exit()
	}
	return tr
}

type replayDoc struct {
	Subject  string   `json:"subject"`
	Init     string   `json:"init"`
	History  []int    `json:"history"`
	ReloadAt int      `json:"reload_at"`
	Edit     string   `json:"edit"`
	PerRes   bool     `json:"per_resource"`
	Ops      []string `json:"ops"`
}

func sig(s *subject, edit string) string {
	kind := "other-rules-edited"
	switch edit {
	case "[X]":
		kind = "pure-reload"
	case "[X,X]":
		kind = "duplicate-of-unchanged-rule"
	case "[X',X]":
		kind = "modified-rule-before-unchanged-rule"
	case "[X,X']":
		kind = "modified-rule-after-unchanged-rule"
	}
	return "C14:" + s.Name + ":" + kind
}

// wideLists: every list of length <= 3 that contains X exactly once, the rest drawn (with repetition)
// from others, X in every position.
func wideLists(others []string) []string {
	out := []string{"[X]"}
	for _, a := range others {
		out = append(out, "[X,"+a+"]", "["+a+",X]")
	}
	for _, a := range others {
		for _, b := range others {
			out = append(out, "[X,"+a+","+b+"]", "["+a+",X,"+b+"]", "["+a+","+b+",X]")
		}
	}
	return out
}

func histories(nops, depth int) [][]int {
	var out [][]int
	var rec func(cur []int)
	rec = func(cur []int) {
		if len(cur) > 0 {
			out = append(out, append([]int(nil), cur...))
		}
		if len(cur) == depth {
			return
		}
		for o := 0; o < nops; o++ {
			rec(append(cur, o))
		}
	}
	rec(nil)
	return out
}

func run(c *props.Ctx) {
	depth := 5
	if !c.Quick() {
		depth = 7
	}
	c.R.Bounds["history_depth"] = depth
	wdepth := 3
	if !c.Quick() {
		wdepth = 4
	}
	c.R.Bounds["wide_pass_history_depth"] = wdepth
	c.R.Bounds["wide_pass_list_length"] = 3
	subs := subjects()
	idx := 0
	perSig := map[string]int{}
	for _, s := range subs {
		d := depth
		if len(s.Ops) >= 6 && d > 5 {
			d = 6
		}
		hs := histories(len(s.Ops), d)
		for _, h := range hs {
			idx++
			if !c.Mine(idx) {
				continue
			}
			if c.Expired() { // every own history (idx%k would only ever coincide with one shard's share)
				c.R.Cap("time budget reached before all histories were explored")
				return
			}
			for _, init := range s.Init {
				base := runTrace(s, init, h, -1, "", false)
				c.R.Evaluations++
				c.R.Outcome(s.Name + "|" + strings.Join(base, ","))
				for _, edit := range s.Edits {
					for _, per := range []bool{false, true} {
						for p := 0; p < len(h); p++ {
							got := runTrace(s, init, h, p, edit, per)
							c.R.Evaluations++
							c.R.Transitions += int64(len(h))
							if strings.Join(got, ",") != strings.Join(base, ",") {
								sg := sig(s, edit)
								perSig[sg]++
								if perSig[sg] > 3 {
									continue
								}
								ops := make([]string, len(h))
								for i, o := range h {
									ops[i] = s.Ops[o]
								}
								c.R.Violate(report.Violation{Signature: sg,
									What: fmt.Sprintf("%s: initial list %s, history %v, reload of %s (per-resource=%v) before operation %d: decisions %v, without the reload %v",
										s.Name, init, ops, edit, per, p, got, base),
									Scenario: s.Name, Replay: replayDoc{s.Name, init, h, p, edit, per, ops}})
							}
						}
					}
				}
			}
		}
		// wide pass: EVERY initial list (X once, up to two of Y / W around it) x EVERY new list (X once, up
		// to two of the subject's other rules, in every position) x every shorter history
		wi, we := wideLists([]string{"Y", "W"}), wideLists(s.Others)
		whs := histories(len(s.Ops), wdepth)
		for _, h := range whs {
			idx++
			if !c.Mine(idx) {
				continue
			}
			if c.Expired() {
				c.R.Cap("time budget reached before all histories of the wide pass were explored")
				return
			}
			for _, init := range wi {
				base := runTrace(s, init, h, -1, "", false)
				c.R.Evaluations++
				for _, edit := range we {
					for _, per := range []bool{false, true} {
						for p := 0; p < len(h); p++ {
							got := runTrace(s, init, h, p, edit, per)
							c.R.Evaluations++
							c.R.Transitions += int64(len(h))
							if strings.Join(got, ",") != strings.Join(base, ",") {
								sg := sig(s, edit)
								perSig[sg]++
								if perSig[sg] > 3 {
									continue
								}
								ops := make([]string, len(h))
								for i, o := range h {
									ops[i] = s.Ops[o]
								}
								c.R.Violate(report.Violation{Signature: sg,
									What: fmt.Sprintf("%s: initial list %s, history %v, reload of %s (per-resource=%v) before operation %d: decisions %v, without the reload %v",
										s.Name, init, ops, edit, per, p, got, base),
									Scenario: s.Name, Replay: replayDoc{s.Name, init, h, p, edit, per, ops}})
							}
						}
					}
				}
			}
		}
		c.R.Sample(map[string]interface{}{"subject": s.Name, "histories": len(hs), "edits": s.Edits, "initial_lists": s.Init,
			"wide_histories": len(whs), "wide_initial_lists": len(wi), "wide_new_lists": len(we)})
	}
	c.R.States = c.R.Evaluations
	c.R.Traces = c.R.Evaluations
	if c.Shard == 0 {
		keepsStatistics(c)
		keepsStatisticsRatio(c)
		stepwiseEqualsAtOnce(c)
	}
}

// stepwiseEqualsAtOnce: a load that modifies several rules at once must leave every one of them with
// ITS OWN accumulated statistics, exactly as if the modifications had been loaded one after the other
// (the statement's "a modified rule whose statistic parameters are unchanged keeps its accumulated
// statistics", whatever else is modified in the same load). No reference model is needed: the trace
// after [P',Q'] is compared with the traces after [P',Q];[P',Q'] and after [P,Q'];[P',Q'].
func stepwiseEqualsAtOnce(c *props.Ctx) {
	type msub struct {
		name  string
		ops   []string
		apply func(st *runState, op int) string
		load  func(names string, per bool)
	}
	hsMk := func(names string) []*hotspot.Rule {
		var out []*hotspot.Rule
		for _, n := range strings.Split(strings.Trim(names, "[]"), ",") {
			r := &hotspot.Rule{ID: strings.TrimSuffix(n, "'"), Resource: "r", MetricType: hotspot.QPS, DurationInSec: 1, Threshold: 2}
			if n[0] == 'Q' {
				r.ParamIndex = 1
			}
			if strings.HasSuffix(n, "'") {
				r.Threshold = 3
			}
			out = append(out, r)
		}
		return out
	}
	flMk := func(names string) []*flow.Rule {
		var out []*flow.Rule
		for _, n := range strings.Split(strings.Trim(names, "[]"), ",") {
			r := &flow.Rule{ID: strings.TrimSuffix(n, "'"), Resource: "r", StatIntervalInMs: 3000, Threshold: 2}
			if n[0] == 'Q' {
				r.Threshold = 4
			}
			if strings.HasSuffix(n, "'") {
				r.Threshold++
			}
			out = append(out, r)
		}
		return out
	}
	cbMk := func(names string) []*cb.Rule {
		var out []*cb.Rule
		for _, n := range strings.Split(strings.Trim(names, "[]"), ",") {
			r := &cb.Rule{Id: strings.TrimSuffix(n, "'"), Resource: "r", Strategy: cb.ErrorCount, RetryTimeoutMs: 1000, MinRequestAmount: 1, StatIntervalMs: 5000, Threshold: 2}
			if n[0] == 'Q' {
				r.Threshold = 5 // no modified rule may coincide with another old rule: equality ignores the id
			}
			if strings.HasSuffix(n, "'") {
				r.Threshold++
			}
			out = append(out, r)
		}
		return out
	}
	must := func(_ bool, err error) {
		if err != nil {
			panic(err)
		}
	}
	subs := []msub{
		{"hotspot-qps", []string{"req(A,A)", "req(A,B)", "req(B,A)", "tick(400)", "tick(1100)"},
			func(st *runState, op int) string {
				switch op {
				case 0:
					return reqObs(st, "r", sentinel.WithArgs("A", "A"))
				case 1:
					return reqObs(st, "r", sentinel.WithArgs("A", "B"))
				case 2:
					return reqObs(st, "r", sentinel.WithArgs("B", "A"))
				case 3:
					return tickOp(400)()
				}
				return tickOp(1100)()
			},
			func(names string, per bool) {
				if per {
					must(hotspot.LoadRulesOfResource("r", hsMk(names)))
				} else {
					must(hotspot.LoadRules(hsMk(names)))
				}
			}},
		{"flow-reject-standalone-window", []string{"req", "tick(1000)", "tick(3000)"},
			func(st *runState, op int) string {
				return []func() string{func() string { return reqObs(st, "r") }, tickOp(1000), tickOp(3000)}[op]()
			},
			func(names string, per bool) {
				if per {
					must(flow.LoadRulesOfResource("r", flMk(names)))
				} else {
					must(flow.LoadRules(flMk(names)))
				}
			}},
		{"circuit-breaker", []string{"req-ok", "req-err", "tick(400)", "tick(1000)"},
			func(st *runState, op int) string {
				switch op {
				case 0, 1:
					e, blk := sentinel.Entry("r")
					if blk != nil {
						return "B"
					}
					if op == 1 {
						e.Exit(base.WithError(bizErr))
					} else {
						e.Exit()
					}
					return "P"
				case 2:
					return tickOp(400)()
				}
				return tickOp(1000)()
			},
			func(names string, per bool) {
				if per {
					must(cb.LoadRulesOfResource("r", cbMk(names)))
				} else {
					must(cb.LoadRules(cbMk(names)))
				}
			}},
	}
	depth := 5
	if !c.Quick() {
		depth = 6
	}
	c.R.Bounds["stepwise_vs_at_once_history_depth"] = depth
	run := func(m msub, h []int, p int, per bool, loads []string) string {
		env.ResetAll(env.DefaultGeometry, T0)
		st := &runState{}
		env.Clock.OnSleep = func(d time.Duration) { st.sleeps = append(st.sleeps, d) }
		m.load("[P,Q]", false)
		var tr []string
		for i, op := range h {
			if i == p {
				for _, l := range loads {
					m.load(l, per)
				}
			}
			tr = append(tr, m.apply(st, op))
		}
		return strings.Join(tr, ",")
	}
	idx := 0
	for _, m := range subs {
		for _, h := range histories(len(m.ops), depth) {
			idx++
			if !c.Mine(idx) {
				continue
			}
			if c.Expired() {
				c.R.Cap("time budget reached in the stepwise-vs-at-once pass")
				return
			}
			for _, per := range []bool{false, true} {
				for p := 0; p < len(h); p++ {
					once := run(m, h, p, per, []string{"[P',Q']"})
					c.R.Evaluations++
					for _, steps := range [][]string{{"[P',Q]", "[P',Q']"}, {"[P,Q']", "[P',Q']"}} {
						got := run(m, h, p, per, steps)
						c.R.Evaluations++
						c.R.Transitions += int64(len(h))
						if got != once {
							ops := make([]string, len(h))
							for i, o := range h {
								ops[i] = m.ops[o]
							}
							c.R.Violate(report.Violation{Signature: "C14:" + m.name + ":several-modified-rules-in-one-load",
								What: fmt.Sprintf("%s: rules [P,Q], history %v, before operation %d (per-resource=%v): loading [P',Q'] at once gives decisions [%s], loading %v one after the other gives [%s]",
									m.name, ops, p, per, once, steps, got),
								Scenario: "stepwise-vs-at-once", Replay: map[string]interface{}{"subject": "stepwise-" + m.name, "history": h, "p": p, "per": per}})
							break
						}
					}
				}
			}
		}
	}
}

// keepsStatistics: a modified rule whose statistic parameters are unchanged keeps its
// accumulated statistics (flow reject window counts; breaker error counts).
func keepsStatistics(c *props.Ctx) {
	// flow: X (T=2, standalone 3000 ms window) -> X'' (T=3); k requests before the reload
	for k := 0; k <= 3; k++ {
		for _, per := range []bool{false, true} {
			env.ResetAll(env.DefaultGeometry, T0)
			st := &runState{}
			mk := func(t float64) []*flow.Rule {
				return []*flow.Rule{{ID: "X", Resource: "r", Threshold: t, StatIntervalInMs: 3000}}
			}
			loadFlow(mk(2), false)
			admitted := 0
			for i := 0; i < k; i++ {
				if reqObs(st, "r") != "B" {
					admitted++
				}
			}
			loadFlow(mk(3), per)
			after := 0
			for i := 0; i < 4; i++ {
				if reqObs(st, "r") != "B" {
					after++
				}
			}
			want := 3 - admitted
			c.R.Evaluations++
			c.R.Outcome(fmt.Sprintf("keep-flow|%d|%v|%d", k, per, after))
			if after != want {
				c.R.Violate(report.Violation{Signature: "C14:flow-reject-standalone-window:modified-rule-loses-statistics",
					What:     fmt.Sprintf("flow rule threshold 2 -> 3 (same statistic interval) reloaded after %d admitted requests (per-resource=%v): %d further requests admitted in the same window, the kept counts allow %d", admitted, per, after, want),
					Scenario: "keeps-statistics", Replay: map[string]interface{}{"subject": "keep-flow", "k": k, "per": per}})
			}
		}
	}
	// breaker: error count threshold 2 -> 3 after one error: two more errors must trip it
	for _, per := range []bool{false, true} {
		env.ResetAll(env.DefaultGeometry, T0)
		mk := func(t float64) []*cb.Rule {
			return []*cb.Rule{{Id: "X", Resource: "r", Strategy: cb.ErrorCount, RetryTimeoutMs: 100000, MinRequestAmount: 1, StatIntervalMs: 5000, Threshold: t}}
		}
		if _, err := cb.LoadRules(mk(2)); err != nil {
			panic(err)
		}
		fail := func() string {
			e, blk := sentinel.Entry("r")
			if blk != nil {
				return "B"
			}
			e.Exit(base.WithError(bizErr))
			return "P"
		}
		fail()
		var err error
		if per {
			_, err = cb.LoadRulesOfResource("r", mk(3))
		} else {
			_, err = cb.LoadRules(mk(3))
		}
		if err != nil {
			panic(err)
		}
		tr := fail() + fail() + fail()
		c.R.Evaluations++
		c.R.Outcome("keep-cb|" + tr)
		if tr != "PPB" {
			c.R.Violate(report.Violation{Signature: "C14:circuit-breaker:modified-rule-loses-statistics",
				What:     fmt.Sprintf("breaker threshold 2 -> 3 (same statistic parameters) reloaded after one error (per-resource=%v): three more failing requests gave %s, with the error kept the third must be rejected (PPB)", per, tr),
				Scenario: "keeps-statistics", Replay: map[string]interface{}{"subject": "keep-cb", "per": per}})
		}
	}
}

// keepsStatisticsRatio: the two ratio strategies - three bad requests, a reload that changes only the retry
// timeout (not a statistic parameter), a fourth bad request reaches the minimum amount: the breaker opens.
func keepsStatisticsRatio(c *props.Ctx) {
	for _, strat := range []cb.Strategy{cb.ErrorRatio, cb.SlowRequestRatio} {
		for _, per := range []bool{false, true} {
			env.ResetAll(env.DefaultGeometry, T0)
			mk := func(retry uint32) []*cb.Rule {
				return []*cb.Rule{{Id: "X", Resource: "r", Strategy: strat, RetryTimeoutMs: retry, MinRequestAmount: 4, StatIntervalMs: 5000, Threshold: 0.5, MaxAllowedRtMs: 10}}
			}
			if _, err := cb.LoadRules(mk(100000)); err != nil {
				panic(err)
			}
			bad := func() string {
				e, blk := sentinel.Entry("r")
				if blk != nil {
					return "B"
				}
				if strat == cb.SlowRequestRatio {
					env.Clock.AdvanceMs(20)
					e.Exit()
				} else {
					e.Exit(base.WithError(bizErr))
				}
				return "P"
			}
			tr := bad() + bad() + bad()
			var err error
			if per {
				_, err = cb.LoadRulesOfResource("r", mk(200000))
			} else {
				_, err = cb.LoadRules(mk(200000))
			}
			if err != nil {
				panic(err)
			}
			tr += "|" + bad() + bad()
			c.R.Evaluations++
			c.R.Outcome(fmt.Sprintf("keep-cb-ratio|%v|%v|%s", strat, per, tr))
			if tr != "PPP|PB" {
				c.R.Violate(report.Violation{Signature: "C14:circuit-breaker:modified-rule-loses-statistics",
					What:     fmt.Sprintf("breaker (%v, minimum 4 requests, ratio 0.5) reloaded with another retry timeout after three bad requests (per-resource=%v): requests gave %s, with the counts kept the fourth bad request opens the breaker (PPP|PB)", strat, per, tr),
					Scenario: "keeps-statistics", Replay: map[string]interface{}{"subject": "keep-cb-ratio", "strategy": fmt.Sprint(strat), "per": per}})
			}
		}
	}
}

func replay(c *props.Ctx, raw json.RawMessage) (bool, string) {
	var d replayDoc
	if err := json.Unmarshal(raw, &d); err != nil {
		return false, err.Error()
	}
	for _, s := range subjects() {
		if s.Name == d.Subject {
			a := runTrace(s, d.Init, d.History, -1, "", false)
			b := runTrace(s, d.Init, d.History, d.ReloadAt, d.Edit, d.PerRes)
			if strings.Join(a, ",") != strings.Join(b, ",") {
				return true, fmt.Sprintf("with reload %v, without %v", b, a)
			}
			return false, ""
		}
	}
	return false, "keeps-statistics cases are re-evaluated by the quick check itself"
}

func init() {
	props.Register(&props.Prop{ID: "C14", Run: run, Replay: replay})
}
