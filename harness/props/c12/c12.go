// Package c12: breaker transitions are atomic and probes exclusive under concurrency.
//
// Engine A. A real breaker (installed through LoadRules) is put into a chosen state
// sequentially, then 2-3 threads each perform one or two of TryPass / OnRequestComplete /
// clock tick directly on it; ALL interleavings at atomic-access granularity are enumerated
// (state-key pruning + shared-location reduction). The oracle uses the successful writes to
// the state word observed by the shim (not the listener) as ground truth.
package c12

import (
	"encoding/json"
	"errors"
	"fmt"
	"os"
	"sort"
	"strings"
	"unsafe"

	sentinel "github.com/alibaba/sentinel-golang/api"
	"github.com/alibaba/sentinel-golang/core/base"
	cb "github.com/alibaba/sentinel-golang/core/circuitbreaker"
	"github.com/alibaba/sentinel-golang/verifshim/vsched"

	"verifharness/engine/sched"
	"verifharness/env"
	"verifharness/props"
	"verifharness/report"
)

const (
	stClosed = iota
	stHalfOpen
	stOpen
)

var stName = []string{"Closed", "HalfOpen", "Open"}

const retry = 10
const T0 = 1700000000000

// step codes of thread programs
const (
	opFail = "C-" // completion that counts against the breaker
	opOK   = "C+"
	opPass = "P"  // TryPass
	opTick = "T"  // clock += retry
	opTic1 = "t"  // clock += 1
	opTicM = "T-" // clock += retry - 1 (together with "t": one full retry timeout, in two parts)
	opEntr = "E"  // api.Entry("r") and, if admitted, Exit
)

type Scen struct {
	Strategy int        `json:"strategy"`
	Init     string     `json:"init"` // closed | open-due | open-fresh | halfopen
	ProbeNum uint64     `json:"probe_num"`
	Progs    [][]string `json:"progs"`
	// Second installs a second breaker (error count, freshly open, long timeout) behind the
	// first one: a probe of the first is then blocked and rolled back by its exit hook. Used
	// with the "E" step (a real api.Entry + Exit); such scenarios are preemption bounded.
	Second bool `json:"second,omitempty"`
	// Api: driven through api.Entry with this breaker alone (no second breaker)
	Api bool `json:"api,omitempty"`

	br        cb.CircuitBreaker
	stateAddr unsafe.Pointer
	writes    []swrite // successful writes to the state word, in order
	heard     []swrite // listener callbacks
	results   [][]int  // per thread per step: -1 n/a, 0 false, 1 true
	loaded    [][]int  // state value loaded by that TryPass
	didCAS    [][]bool // that TryPass performed Open->HalfOpen itself
	loadedAt  [][]int  // number of state writes that had happened when that step first loaded the state
	curThread func() int
	curStep   []int
	now       int64
}

type swrite struct {
	prev, next int
	at         int64
	thread     int
	step       int // index of the step of that thread's program during which the write happened
}

func (s *Scen) name() string { b, _ := json.Marshal(s); return string(b) }

type lst struct{ s *Scen }

func (l lst) OnTransformToClosed(prev cb.State, rule cb.Rule) {
	if rule.Id != "x" {
		return
	}
	l.s.heard = append(l.s.heard, swrite{int(prev), stClosed, l.s.now, vsched.Cur(), 0})
}
func (l lst) OnTransformToOpen(prev cb.State, rule cb.Rule, snapshot interface{}) {
	if rule.Id != "x" {
		return
	}
	l.s.heard = append(l.s.heard, swrite{int(prev), stOpen, l.s.now, vsched.Cur(), 0})
}
func (l lst) OnTransformToHalfOpen(prev cb.State, rule cb.Rule) {
	if rule.Id != "x" {
		return
	}
	l.s.heard = append(l.s.heard, swrite{int(prev), stHalfOpen, l.s.now, vsched.Cur(), 0})
}

var bizErr = errors.New("biz")

func (s *Scen) complete(fail bool) {
	rt := uint64(1)
	var err error
	if fail {
		rt = 100
		err = bizErr
	}
	s.br.OnRequestComplete(rt, err)
}

func (s *Scen) setClock(ms int64) {
	s.now = ms
	env.Clock.SetMs(ms)
}

func (s *Scen) setup() {
	vsched.AfterOp = nil
	env.ResetAll(env.DefaultGeometry, T0)
	s.now = T0
	th := 1.0
	if s.Strategy != 2 {
		th = 0.5
	}
	rule := &cb.Rule{Id: "x", Resource: "r", Strategy: cb.Strategy(s.Strategy), RetryTimeoutMs: retry, MinRequestAmount: 1,
		StatIntervalMs: 1000, StatSlidingWindowBucketCount: 1, MaxAllowedRtMs: 10, Threshold: th, ProbeNum: s.ProbeNum}
	rules := []*cb.Rule{rule}
	if s.Second {
		rules = append(rules, &cb.Rule{Id: "y", Resource: "r", Strategy: cb.ErrorCount, RetryTimeoutMs: 100000, MinRequestAmount: 1,
			StatIntervalMs: 1000, StatSlidingWindowBucketCount: 1, Threshold: 1})
	}
	if _, err := cb.LoadRules(rules); err != nil {
		panic(err)
	}
	brs := cb.VerifBreakers("r")
	if len(brs) != len(rules) {
		panic("harness: breaker not installed")
	}
	s.br = brs[0]
	if s.Second {
		brs[1].OnRequestComplete(1, bizErr) // opens the second breaker for a long time
		if int(brs[1].CurrentState()) != stOpen {
			panic("harness: second breaker not open")
		}
	}
	// drive into the initial state sequentially
	ctx := base.NewEmptyEntryContext()
	switch s.Init {
	case "closed":
	case "open-due":
		s.complete(true)
		s.setClock(T0 + retry)
	case "open-fresh":
		s.complete(true)
	case "halfopen":
		s.complete(true)
		s.setClock(T0 + retry)
		if !s.br.TryPass(ctx) {
			panic("harness: could not reach half-open")
		}
	}
	want := map[string]int{"closed": stClosed, "open-due": stOpen, "open-fresh": stOpen, "halfopen": stHalfOpen}[s.Init]
	if int(s.br.CurrentState()) != want {
		panic("harness: initial state not reached")
	}
	s.stateAddr = cb.VerifStateAddr(s.br)
	s.writes = s.writes[:0]
	s.heard = s.heard[:0]
	s.results = make([][]int, len(s.Progs))
	s.loaded = make([][]int, len(s.Progs))
	s.didCAS = make([][]bool, len(s.Progs))
	s.loadedAt = make([][]int, len(s.Progs))
	s.curStep = make([]int, len(s.Progs))
	for i, p := range s.Progs {
		s.results[i] = make([]int, len(p))
		s.loaded[i] = make([]int, len(p))
		s.didCAS[i] = make([]bool, len(p))
		s.loadedAt[i] = make([]int, len(p))
		for j := range p {
			s.results[i][j] = -1
			s.loaded[i][j] = -1
		}
	}
	cb.RegisterStateChangeListeners(lst{s})
	vsched.ResetRegions()
	for _, r := range cb.VerifRegions(s.br) {
		vsched.RegisterRegion(r.Base, r.Size)
	}
	vsched.AfterOp = s.afterOp
}

//go:norace
func (s *Scen) afterOp(kind uint8, addr unsafe.Pointer, old, new uint64, ok bool) {
	if addr != s.stateAddr {
		return
	}
	me := vsched.Cur()
	if me < 0 || me >= len(s.Progs) {
		return
	}
	j := s.curStep[me]
	switch kind {
	case vsched.KLoad:
		if j < len(s.loaded[me]) && s.loaded[me][j] < 0 {
			s.loaded[me][j] = int(int32(new))
			s.loadedAt[me][j] = len(s.writes)
		}
	case vsched.KCAS:
		if ok {
			s.writes = append(s.writes, swrite{int(int32(old)), int(int32(new)), s.now, me, j})
			if int(int32(old)) == stOpen && int(int32(new)) == stHalfOpen && j < len(s.didCAS[me]) {
				s.didCAS[me][j] = true
			}
		}
	case vsched.KStore, vsched.KSwap:
		prev := -1
		if len(s.writes) > 0 {
			prev = s.writes[len(s.writes)-1].next
		} else {
			prev = map[string]int{"closed": stClosed, "open-due": stOpen, "open-fresh": stOpen, "halfopen": stHalfOpen}[s.Init]
		}
		s.writes = append(s.writes, swrite{prev, int(int32(new)), s.now, me, j})
	}
}

func (s *Scen) threads() []func() {
	fns := make([]func(), len(s.Progs))
	for ti := range s.Progs {
		ti := ti
		fns[ti] = func() {
			ctx := base.NewEmptyEntryContext()
			for j, op := range s.Progs[ti] {
				s.curStep[ti] = j
				switch op {
				case opFail:
					s.complete(true)
				case opOK:
					s.complete(false)
				case opPass:
					if s.br.TryPass(ctx) {
						s.results[ti][j] = 1
					} else {
						s.results[ti][j] = 0
					}
				case opEntr:
					e, blk := sentinel.Entry("r")
					if blk == nil {
						s.results[ti][j] = 1
						e.Exit()
					} else {
						s.results[ti][j] = 0
					}
				case opTick:
					vsched.Point(vsched.KUser, nil)
					s.setClock(s.now + retry)
				case opTic1:
					vsched.Point(vsched.KUser, nil)
					s.setClock(s.now + 1)
				case opTicM:
					vsched.Point(vsched.KUser, nil)
					s.setClock(s.now + retry - 1)
				}
			}
			s.curStep[ti] = len(s.Progs[ti])
		}
	}
	return fns
}

func fmtW(ws []swrite) string {
	var p []string
	for _, w := range ws {
		p = append(p, fmt.Sprintf("%s->%s", name(w.prev), stName[w.next]))
	}
	return "[" + strings.Join(p, " ") + "]"
}

func name(i int) string {
	if i < 0 || i > 2 {
		return "?"
	}
	return stName[i]
}

func (s *Scen) check(x *vsched.Exec) (string, string) {
	out := fmtW(s.writes) + "|"
	// (1) every transition performed once and reported once with the right previous state
	a := make([]string, 0, len(s.writes))
	for _, w := range s.writes {
		if w.prev == w.next {
			return out, fmt.Sprintf("state word rewritten %s->%s by a second caller: transitions performed %s", name(w.prev), stName[w.next], fmtW(s.writes))
		}
		a = append(a, fmt.Sprintf("%d>%d", w.prev, w.next))
	}
	b := make([]string, 0, len(s.heard))
	for _, w := range s.heard {
		b = append(b, fmt.Sprintf("%d>%d", w.prev, w.next))
	}
	sort.Strings(a)
	sort.Strings(b)
	if fmt.Sprint(a) != fmt.Sprint(b) {
		return out, fmt.Sprintf("listeners heard %s, transitions actually performed %s", fmtW(s.heard), fmtW(s.writes))
	}
	// (2) legal path
	prev := map[string]int{"closed": stClosed, "open-due": stOpen, "open-fresh": stOpen, "halfopen": stHalfOpen}[s.Init]
	openedAt := int64(-1)
	if s.Init == "open-due" || s.Init == "open-fresh" {
		openedAt = T0
	}
	lastOpenIdx := -1
	for wi, w := range s.writes {
		if w.prev != prev {
			return out, fmt.Sprintf("transition %s->%s performed while the breaker was %s", name(w.prev), stName[w.next], stName[prev])
		}
		legal := (w.prev == stClosed && w.next == stOpen) || (w.prev == stOpen && w.next == stHalfOpen) ||
			(w.prev == stHalfOpen && (w.next == stOpen || w.next == stClosed))
		if !legal {
			return out, fmt.Sprintf("illegal transition %s->%s", name(w.prev), stName[w.next])
		}
		// (3) no probe before a full retry timeout since the breaker opened
		if w.next == stHalfOpen && openedAt >= 0 && w.at < openedAt+retry {
			aba := ""
			if w.thread >= 0 && w.thread < len(s.Progs) && w.step < len(s.loadedAt[w.thread]) && lastOpenIdx >= 0 && s.loadedAt[w.thread][w.step] <= lastOpenIdx {
				// the caller decided to probe when it saw the PREVIOUS open round (whose timeout had
				// elapsed); the breaker was probed, closed and re-opened before its compare-and-swap
				aba = " [the caller had observed Open before the breaker was re-opened: ABA on the state word]"
			}
			return out, fmt.Sprintf("request admitted (Open->HalfOpen) %d ms after the breaker opened, retry timeout is %d ms%s", w.at-openedAt, retry, aba)
		}
		// (2b) every transition has its cause: only a completion opens a closed or re-opens a half-open
		// breaker, only a successful one closes it, only an arriving request moves it to half-open; a request through the API (which completes without error) re-opens a
		// half-open breaker only when it was the probe and a later check blocked it
		if w.thread >= 0 && w.thread < len(s.Progs) && w.step < len(s.Progs[w.thread]) {
			op := s.Progs[w.thread][w.step]
			ok := false
			switch {
			case w.next == stHalfOpen:
				ok = op == opPass || op == opEntr
			case w.next == stClosed:
				ok = op == opOK || op == opEntr
			case w.next == stOpen && w.prev == stClosed:
				// any completion may find the window at its threshold (minimum amount reached by a
				// success; statistics of the previous round not cleared yet by a concurrent closer)
				ok = op == opFail || op == opOK || op == opEntr
			case w.next == stOpen && w.prev == stHalfOpen:
				// a completion that began while the breaker was closed and finds its window at the
				// threshold re-reads the state and re-opens a breaker that has become half-open meanwhile
				// (the code's "case HalfOpen" under "current state is CLOSED"): any completion qualifies
				ok = op == opFail || op == opOK || (op == opEntr && s.Second)
			}
			if !ok {
				return out, fmt.Sprintf("transition %s->%s performed while thread %d was in step %q, which cannot cause it (transitions %s)", name(w.prev), stName[w.next], w.thread, op, fmtW(s.writes))
			}
		}
		if w.next == stOpen {
			if w.prev == stHalfOpen && s.Second && s.Progs[w.thread][0] == opEntr {
				// roll-back of a blocked probe by its exit hook: Open again with the old deadline
			} else {
				openedAt = w.at
			}
		}
		if w.next == stOpen {
			lastOpenIdx = wi
		}
		prev = w.next
	}
	// (4) every TryPass answer is justified by what it saw
	for ti, p := range s.Progs {
		for j, op := range p {
			if op != opPass {
				continue
			}
			r, ld := s.results[ti][j], s.loaded[ti][j]
			out += fmt.Sprintf("%d", r)
			if r < 0 {
				return out, "a TryPass did not return"
			}
			just := ld == stClosed || (ld == stOpen && s.didCAS[ti][j]) || (ld == stHalfOpen && s.ProbeNum > 0)
			if r == 1 && !just {
				return out, fmt.Sprintf("TryPass admitted a request although it saw the breaker %s and did not win the probe transition", name(ld))
			}
			if r == 0 && just {
				return out, fmt.Sprintf("TryPass rejected a request although it saw the breaker %s (won probe=%v)", name(ld), s.didCAS[ti][j])
			}
		}
	}
	// (5) liveness: an open breaker admits a probe once a full timeout has elapsed (checked
	// sequentially after the threads have finished)
	if int(s.br.CurrentState()) == stOpen {
		s.setClock(s.now + retry)
		if !s.br.TryPass(base.NewEmptyEntryContext()) {
			return out, "breaker is open and rejects the probe although a full retry timeout has elapsed since the last transition"
		}
	}
	return out, ""
}

func (s *Scen) stateKey() uint64 {
	d := cb.VerifDump(s.br)
	h := uint64(d.State) + 1
	h = vsched.Mix(h, d.NextRetry)
	h = vsched.Mix(h, d.CurProbe)
	h = vsched.Mix(h, uint64(d.LockWord))
	for _, b := range d.Buckets {
		h = vsched.Mix(h, b.Start)
		h = vsched.Mix(h, b.Bad<<20|b.Total)
	}
	h = vsched.Mix(h, uint64(s.now))
	for _, w := range s.writes {
		h = vsched.Mix(h, uint64(w.prev*16+w.next)<<40|uint64(w.at-T0)<<8|uint64(w.thread))
	}
	h = vsched.Mix(h, 77)
	for _, w := range s.heard {
		h = vsched.Mix(h, uint64(w.prev*16+w.next))
	}
	for ti := range s.Progs {
		h = vsched.Mix(h, uint64(s.curStep[ti]))
		for j := range s.Progs[ti] {
			h = vsched.Mix(h, uint64(s.results[ti][j]+2)<<8|uint64(s.loaded[ti][j]+2)<<2)
			if s.didCAS[ti][j] {
				h = vsched.Mix(h, 5)
			}
		}
	}
	return h
}

func (s *Scen) scenario() *sched.Scenario {
	if s.Second || s.Api {
		// the API path touches locks and pools outside the state key: preemption bounding only
		return &sched.Scenario{Name: s.name(), Setup: s.setup, Threads: s.threads, Check: s.check, MaxSteps: 50000}
	}
	return &sched.Scenario{Name: s.name(), Setup: s.setup, Threads: s.threads, Check: s.check, StateKey: s.stateKey, POR: true, MaxSteps: 20000}
}

func scenarios(quick bool) []*Scen {
	type pi struct {
		init  string
		pn    uint64
		progs [][]string
	}
	list := []pi{
		{"closed", 0, [][]string{{opFail}, {opFail}}},
		{"closed", 0, [][]string{{opFail}, {opPass}}},
		{"closed", 0, [][]string{{opFail}, {opPass}, {opTick}}},
		{"closed", 0, [][]string{{opFail, opPass}, {opPass}}},
		{"closed", 0, [][]string{{opFail}, {opOK}, {opPass}}},
		{"open-due", 0, [][]string{{opPass}, {opPass}}},
		{"open-due", 0, [][]string{{opPass}, {opPass}, {opPass}}},
		{"open-due", 1, [][]string{{opPass}, {opPass}}},
		{"open-due", 0, [][]string{{opPass}, {opPass, opOK}, {opFail}}}, // a whole round fits between a caller's check and its CAS
		{"open-fresh", 0, [][]string{{opPass}, {opTick}, {opPass}}},
		{"open-fresh", 0, [][]string{{opPass, opPass}, {opTick}}},
		// a probe, a straggler that re-opens the breaker 1 ms later, and a request one retry timeout after the
		// FIRST opening-to-half-open, i.e. 1 ms short of a full timeout since the re-opening
		{"open-due", 0, [][]string{{opPass}, {opTic1, opFail}, {opTicM, opPass}}},
		{"halfopen", 0, [][]string{{opFail}, {opOK}}},
		{"halfopen", 0, [][]string{{opOK}, {opPass}}},
		{"halfopen", 0, [][]string{{opFail}, {opPass}, {opTick}}},
		{"halfopen", 0, [][]string{{opFail}, {opPass, opPass}}},
		{"halfopen", 0, [][]string{{opFail}, {opFail}}},
		{"halfopen", 2, [][]string{{opOK}, {opOK}}},
		{"halfopen", 2, [][]string{{opOK}, {opOK}, {opPass}}},
		{"halfopen", 0, [][]string{{opOK, opFail}, {opPass}}},
	}
	if !quick {
		list = append(list,
			pi{"closed", 0, [][]string{{opFail, opPass}, {opTick}, {opPass}}},
			pi{"closed", 0, [][]string{{opFail}, {opFail}, {opPass}}},
			pi{"halfopen", 0, [][]string{{opFail, opPass}, {opTick}, {opPass}}},
			pi{"halfopen", 1, [][]string{{opOK}, {opFail}, {opPass}}},
			pi{"open-due", 0, [][]string{{opPass, opFail}, {opPass}, {opTic1}}},
		)
	}
	var out []*Scen
	for strat := 0; strat < 3; strat++ {
		for _, p := range list {
			out = append(out, &Scen{Strategy: strat, Init: p.init, ProbeNum: p.pn, Progs: p.progs})
		}
	}
	// generated: every unordered pair of programs over {C-, C+, P} (length 1 in quick, <=2 in
	// thorough) from every initial state, with and without a clock-tick thread
	alpha := []string{opFail, opOK, opPass}
	var progs [][]string
	for _, a := range alpha {
		progs = append(progs, []string{a})
	}
	if !quick {
		for _, a := range alpha {
			for _, b := range alpha {
				progs = append(progs, []string{a, b})
			}
		}
	}
	pns := []uint64{0}
	if !quick {
		pns = []uint64{0, 1}
	}
	for strat := 0; strat < 3; strat++ {
		for _, init := range []string{"closed", "open-due", "open-fresh", "halfopen"} {
			for _, pn := range pns {
				for i := 0; i < len(progs); i++ {
					for j := i; j < len(progs); j++ {
						out = append(out, &Scen{Strategy: strat, Init: init, ProbeNum: pn, Progs: [][]string{progs[i], progs[j]}})
						out = append(out, &Scen{Strategy: strat, Init: init, ProbeNum: pn, Progs: [][]string{progs[i], progs[j], {opTick}}})
					}
				}
			}
		}
	}
	// through the API with a second (open) breaker: the probe is blocked and rolled back
	for _, pg := range [][][]string{{{opEntr}, {opFail}}, {{opEntr}, {opEntr}}, {{opEntr}, {opOK}}, {{opEntr}, {opFail}, {opTick}}} {
		out = append(out, &Scen{Strategy: 2, Init: "open-due", Second: true, Progs: pg})
		out = append(out, &Scen{Strategy: 2, Init: "halfopen", Second: true, Progs: pg})
	}
	// through the API with the breaker alone: requests that lose the race for the probe are blocked
	// entries with exit hooks of their own
	for _, init := range []string{"open-due", "halfopen", "closed"} {
		for _, pg := range [][][]string{{{opEntr}, {opEntr}}, {{opEntr}, {opEntr}, {opEntr}}, {{opEntr}, {opPass}}, {{opEntr}, {opFail}}, {{opEntr}, {opOK}}, {{opEntr, opEntr}, {opEntr}}} {
			out = append(out, &Scen{Strategy: 2, Init: init, Api: true, Progs: pg})
		}
	}
	return out
}

func signature(what string) string {
	switch {
	case strings.Contains(what, "which cannot cause it"):
		return "C12:transition-without-cause"
	case strings.Contains(what, "ABA on the state word"):
		return "C12:probe-before-retry-timeout:stale-open-observation"
	case strings.Contains(what, "ms after the breaker opened"):
		return "C12:probe-before-retry-timeout"
	case strings.Contains(what, "listeners heard"):
		return "C12:listener-log-mismatch"
	case strings.Contains(what, "second caller"), strings.Contains(what, "performed while"), strings.Contains(what, "illegal transition"):
		return "C12:transition-not-atomic"
	case strings.Contains(what, "TryPass admitted"):
		return "C12:unjustified-admission"
	case strings.Contains(what, "TryPass rejected"):
		return "C12:unjustified-rejection"
	case strings.Contains(what, "rejects the probe although"):
		return "C12:stuck-open"
	case strings.Contains(what, "deadlock"), strings.Contains(what, "livelock"):
		return "C12:non-termination"
	}
	return "C12:other"
}

type replayDoc struct {
	Scen    Scen     `json:"scen"`
	Choices []int    `json:"choices"`
	Shared  []uint64 `json:"shared"`
}

func run(c *props.Ctx) {
	all := scenarios(c.Quick())
	c.R.Bounds["scenarios"] = len(all)
	c.R.Bounds["mode"] = "ALL interleavings at atomic-access granularity (state-key pruning, shared-location reduction, fair scheduling), 2-3 threads x 1-2 steps, clock ticks as thread steps"
	for i, s := range all {
		if !c.Mine(i) {
			continue
		}
		if c.Expired() {
			c.R.Cap("time budget reached before all scenarios were explored")
			break
		}
		bound := -1
		if s.Second || s.Api {
			bound = 2
			if !c.Quick() {
				bound = 3
			}
		}
		res := sched.Explore(s.scenario(), sched.Options{Bound: bound, Deadline: c.Deadline, MaxExecs: 4000000, Classify: signature})
		if dbg := os.Getenv("C12_DEBUG"); dbg != "" && strings.Contains(s.name(), dbg) {
			fmt.Fprintf(os.Stderr, "C12 debug: %s execs=%d states=%d outcomes=%v err=%q cap=%q\n", s.name(), res.Execs, res.States, res.Outcomes, res.HarnessErr, res.CapHit)
		}
		c.R.Evaluations += int64(res.Execs)
		c.R.Traces += int64(res.Execs)
		c.R.Transitions += res.Steps
		c.R.States += int64(res.States)
		for o := range res.Outcomes {
			c.R.Outcome(s.name() + "|" + o)
		}
		if res.HarnessErr != "" {
			c.R.HarnessError(s.name() + ": " + res.HarnessErr)
		}
		if res.CapHit != "" {
			c.R.Cap(res.CapHit)
		}
		if i%7 == 0 {
			c.R.Sample(map[string]interface{}{"scenario": s.name(), "execs": res.Execs, "states": res.States, "outcomes": len(res.Outcomes), "schedule": res.SampleSched})
		}
		for _, v := range res.Violations {
			c.R.Violate(report.Violation{Signature: signature(v.What), What: v.What, Scenario: s.name(),
				Replay: replayDoc{Scen: *s, Choices: v.Choices, Shared: v.Shared}})
		}
	}
}

func replay(c *props.Ctx, raw json.RawMessage) (bool, string) {
	var d replayDoc
	if err := json.Unmarshal(raw, &d); err != nil {
		return false, err.Error()
	}
	s := d.Scen
	_, w := sched.Replay(s.scenario(), d.Choices, d.Shared)
	return w != "", w
}

func init() {
	props.Register(&props.Prop{ID: "C12", Run: run, Replay: replay})
}
