// Package all links every property checker into the worker.
package all

import (
	_ "verifharness/props/c01"
	_ "verifharness/props/c02"
	_ "verifharness/props/c03"
	_ "verifharness/props/c04"
	_ "verifharness/props/c05"
	_ "verifharness/props/c06"
	_ "verifharness/props/c07"
	_ "verifharness/props/c08"
	_ "verifharness/props/c09"
	_ "verifharness/props/c10"
	_ "verifharness/props/c11"
	_ "verifharness/props/c12"
	_ "verifharness/props/c13"
	_ "verifharness/props/c14"
	_ "verifharness/props/c15"
	_ "verifharness/props/c16"
	_ "verifharness/props/c17"
	_ "verifharness/props/c18"
	_ "verifharness/props/c20"
)
