package c02

import (
	"encoding/json"
	"fmt"

	sentinel "github.com/alibaba/sentinel-golang/api"
	"github.com/alibaba/sentinel-golang/core/base"
	"github.com/alibaba/sentinel-golang/core/flow"
	"github.com/alibaba/sentinel-golang/verifshim/vsched"

	"verifharness/chainx"
	"verifharness/engine/sched"
	"verifharness/env"
	"verifharness/props"
	"verifharness/report"
)

// concScen: k callers, each issuing a few requests on resource "a" with the clock frozen, at
// admission-path granularity: the only scheduling points are the start of each request and
// the boundary between its rule-check phase and its statistic phase.
type concScen struct {
	Rules   []RuleSpec `json:"rules"`
	Callers [][]uint32 `json:"callers"` // batch counts per caller
	// Fine: every shimmed atomic / lock operation is a scheduling point (preemption bounded) instead
	// of the two phase boundaries; Pre tokens are admitted sequentially before the callers start
	Fine  bool   `json:"fine,omitempty"`
	Pre   uint32 `json:"pre,omitempty"`
	Bound int    `json:"bound,omitempty"`
	done  int64  // tokens whose statistic phase is complete
	rules []*flow.Rule
	geoms []winGeom
	chain *base.SlotChain
	hooks chainx.Hooks
	adm   []admit // recorded admissions (updated in the statistic phase)
	reqs  []*creq
	curOf map[int]*creq
}

type creq struct {
	caller, idx int
	batch       uint32
	snap        []int64 // window sums per rule at its own check
	lo, hi      int64   // fine mode: tokens certainly recorded when its check began / possibly recorded when it ended
	checked     bool
	passed      bool
	done        bool
	blkRule     *flow.Rule
	blkVal      float64
	blkType     base.BlockType
}

const concT0 = 400003

func (s *concScen) name() string {
	b, _ := json.Marshal(s)
	return string(b)
}

func (s *concScen) setup() {
	env.ResetAll(scaled, concT0)
	s.adm = s.adm[:0]
	s.rules = s.rules[:0]
	s.geoms = s.geoms[:0]
	for i, r := range s.Rules {
		s.rules = append(s.rules, &flow.Rule{ID: fmt.Sprint(i), Resource: "a", Threshold: r.T, StatIntervalInMs: r.Interval})
		s.geoms = append(s.geoms, geomOf(scaled, r))
	}
	if _, err := flow.LoadRules(s.rules); err != nil {
		panic(err)
	}
	s.reqs = s.reqs[:0]
	cur := map[int]*creq{}
	s.hooks = chainx.Hooks{
		BeforeChecks: func(ctx *base.EntryContext) {
			r := cur[vsched.Cur()]
			r.checked = true
			r.lo = s.done
			r.snap = make([]int64, len(s.rules))
			for i := range s.rules {
				for _, a := range s.adm {
					r.snap[i] += a.tok // clock frozen: everything recorded is inside every window
				}
			}
		},
		Passed: func(ctx *base.EntryContext) {
			r := cur[vsched.Cur()]
			s.adm = append(s.adm, admit{concT0, "a", int64(r.batch)})
			if !r.checked || r.hi == 0 {
				r.hi = s.begun()
			}
		},
		Blocked: func(ctx *base.EntryContext, _ *base.BlockError) {
			r := cur[vsched.Cur()]
			r.hi = s.begun()
		},
		AfterChecks: func(ctx *base.EntryContext) {
			r := cur[vsched.Cur()]
			r.hi = s.begun()
		},
		Recorded: func(ctx *base.EntryContext) {
			r := cur[vsched.Cur()]
			s.done += int64(r.batch)
		},
	}
	s.done = 0
	s.chain = chainx.NewPhaseChain(&s.hooks)
	for ci, bs := range s.Callers {
		for j, b := range bs {
			s.reqs = append(s.reqs, &creq{caller: ci, idx: j, batch: b})
		}
	}
	_ = cur
	s.curOf = cur
	if s.Pre > 0 {
		pre := &creq{batch: s.Pre}
		cur[vsched.Cur()] = pre
		e, blk := sentinel.Entry("a", sentinel.WithBatchCount(s.Pre), sentinel.WithSlotChain(s.chain))
		if blk != nil {
			panic("harness: the sequential prefix was blocked")
		}
		e.Exit()
		delete(cur, vsched.Cur())
	}
}

// begun: tokens of every request whose statistic phase has begun
func (s *concScen) begun() int64 {
	var n int64
	for _, a := range s.adm {
		n += a.tok
	}
	return n
}

func (s *concScen) threads() []func() {
	fns := make([]func(), len(s.Callers))
	for ci := range s.Callers {
		ci := ci
		fns[ci] = func() {
			for _, r := range s.reqs {
				if r.caller != ci {
					continue
				}
				vsched.Point(vsched.KUser, nil)
				s.curOf[ci] = r
				e, blk := sentinel.Entry("a", sentinel.WithBatchCount(r.batch), sentinel.WithSlotChain(s.chain))
				if blk != nil {
					r.blkType = blk.BlockType()
					r.blkRule, _ = blk.TriggeredRule().(*flow.Rule)
					r.blkVal, _ = blk.TriggeredValue().(float64)
				} else {
					r.passed = true
					e.Exit()
				}
				r.done = true
			}
		}
	}
	return fns
}

func (s *concScen) check(x *vsched.Exec) (string, string) {
	out := ""
	var total int64
	var maxB int64
	for _, r := range s.reqs {
		if int64(r.batch) > maxB {
			maxB = int64(r.batch)
		}
		if !r.done || !r.checked {
			return "UNFINISHED", "a request did not finish"
		}
		if s.Fine {
			// a caller's check overlaps other callers' recording: it must be consistent with SOME
			// count between what was certainly recorded when it began and what may have been when it ended
			T := s.Rules[0].T
			if r.passed {
				out += "P"
				total += int64(r.batch)
				if float64(r.lo)+float64(r.batch) > T {
					return out, fmt.Sprintf("caller %d (batch %d) admitted although %d tokens were completely recorded before its check began (T=%v): decided on a count nobody recorded", r.caller, r.batch, r.lo, T)
				}
			} else {
				out += "B"
				if float64(r.hi)+float64(r.batch) <= T {
					return out, fmt.Sprintf("caller %d (batch %d) rejected although at most %d tokens were recorded or being recorded when its check ended (T=%v)", r.caller, r.batch, r.hi, T)
				}
			}
			continue
		}
		want := -1
		for i := range s.rules {
			if float64(r.snap[i])+float64(r.batch) > s.Rules[i].T {
				want = i
				break
			}
		}
		if r.passed {
			out += "P"
			total += int64(r.batch)
			if want >= 0 {
				return out, fmt.Sprintf("caller %d request %d (batch %d) admitted although %d tokens were already recorded when it was checked (T=%v)", r.caller, r.idx, r.batch, r.snap[want], s.Rules[want].T)
			}
		} else {
			out += "B"
			if want < 0 {
				return out, fmt.Sprintf("caller %d request %d (batch %d) rejected although only %v tokens were recorded when it was checked", r.caller, r.idx, r.batch, r.snap)
			}
			if r.blkType != base.BlockTypeFlow || r.blkRule != s.rules[want] || r.blkVal != float64(r.snap[want]) {
				return out, fmt.Sprintf("caller %d request %d: block reported (%v, %v), expected rule #%d with value %d", r.caller, r.idx, r.blkRule, r.blkVal, want, r.snap[want])
			}
		}
	}
	k := int64(len(s.Callers))
	for i := range s.rules {
		if float64(total) > s.Rules[i].T+float64((k-1)*maxB) {
			return out, fmt.Sprintf("%d tokens admitted in one window, more than T=%v + (k-1)*maxBatch = %v", total, s.Rules[i].T, s.Rules[i].T+float64((k-1)*maxB))
		}
	}
	return fmt.Sprintf("%s/%d", out, total), ""
}

func (s *concScen) scenario() *sched.Scenario {
	if s.Fine {
		return &sched.Scenario{Name: s.name(), Setup: s.setup, Threads: s.threads, Check: s.check, MaxSteps: 200000}
	}
	return &sched.Scenario{Name: s.name(), Setup: s.setup, Threads: s.threads, Check: s.check, Filter: chainx.OnlyUser, MaxSteps: 100000}
}

func concScenarios(quick bool) []*concScen {
	var out []*concScen
	ruleSets := [][]RuleSpec{{{1, 0, false}}, {{2, 0, false}}, {{3, 0, false}}, {{2, 15, false}}, {{3, 0, false}, {2, 30, false}}}
	callers := [][][]uint32{
		{{1}, {1}}, {{1, 1}, {1}}, {{1, 1}, {1, 1}}, {{2}, {1}}, {{1, 2}, {2}},
		{{1}, {1}, {1}}, {{1, 1}, {1}, {1}}, {{2}, {1}, {1}},
	}
	if !quick {
		callers = append(callers, [][]uint32{{1, 1}, {1, 1}, {1, 1}}, [][]uint32{{1, 2}, {2, 1}, {1}}, [][]uint32{{2, 2}, {1, 1}})
	}
	for _, rs := range ruleSets {
		for _, cs := range callers {
			out = append(out, &concScen{Rules: rs, Callers: cs})
		}
	}
	// atomic-access granularity, preemption bounded: callers with DIFFERENT batches around the threshold
	fb := 1
	if !quick {
		fb = 2
	}
	for _, rs := range [][]RuleSpec{{{5, 0, false}}, {{5, 15, false}}} {
		out = append(out, &concScen{Rules: rs, Callers: [][]uint32{{5}, {1}}, Pre: 3, Fine: true, Bound: fb},
			&concScen{Rules: rs, Callers: [][]uint32{{2}, {1}}, Pre: 3, Fine: true, Bound: fb})
	}
	return out
}

type concReplay struct {
	Kind    string   `json:"kind"`
	Scen    concScen `json:"scen"`
	Choices []int    `json:"choices"`
}

func runConc(c *props.Ctx) {
	all := concScenarios(c.Quick())
	c.R.Bounds["concurrent_scenarios"] = len(all)
	for i, s := range all {
		if !c.Mine(i) {
			continue
		}
		bound := 1 << 30
		if s.Fine {
			bound = s.Bound
		}
		res := sched.Explore(s.scenario(), sched.Options{Bound: bound, Deadline: c.Deadline, MaxExecs: 2000000})
		c.R.Evaluations += int64(res.Execs)
		c.R.Traces += int64(res.Execs)
		c.R.Transitions += res.Steps
		c.R.States += int64(res.States)
		for o := range res.Outcomes {
			c.R.Outcome("conc|" + s.name() + "|" + o)
		}
		if res.HarnessErr != "" {
			c.R.HarnessError(s.name() + ": " + res.HarnessErr)
		}
		if res.CapHit != "" {
			c.R.Cap(res.CapHit)
		}
		if i%11 == 0 {
			c.R.Sample(map[string]interface{}{"concurrent": s.name(), "interleavings": res.Execs, "outcomes": len(res.Outcomes)})
		}
		for _, v := range res.Violations {
			c.R.Violate(report.Violation{Signature: "C02:concurrent:" + classify(v.What), What: v.What, Scenario: s.name(),
				Replay: concReplay{Kind: "conc", Scen: *s, Choices: v.Choices}})
		}
	}
}

func classify(what string) string {
	switch {
	case len(what) > 0 && containsStr(what, "admitted although"):
		return "decision-not-by-recorded-count"
	case containsStr(what, "rejected although"):
		return "spurious-rejection"
	case containsStr(what, "more than T"):
		return "excess-beyond-k-1"
	case containsStr(what, "block reported"):
		return "wrong-block-report"
	}
	return "other"
}

func containsStr(s, sub string) bool {
	for i := 0; i+len(sub) <= len(s); i++ {
		if s[i:i+len(sub)] == sub {
			return true
		}
	}
	return false
}

func replayConc(raw json.RawMessage) (bool, string) {
	var d concReplay
	if err := json.Unmarshal(raw, &d); err != nil {
		return false, err.Error()
	}
	_, w := sched.Replay(d.Scen.scenario(), d.Choices, nil)
	return w != "", w
}
