// Package c02: a reject-mode QPS flow rule admits exactly up to the threshold per
// bucket-aligned statistic window.
//
// Engine B: all arrival histories (requests of several batch sizes on the guarded and the
// referenced resource, clock advances across bucket / window / cycle boundaries) up to a
// depth bound, for every rule set of a configuration grid, through the real api.Entry and
// the default slot chain, against a list-of-admitted-tokens reference.
// Engine A: k concurrent callers at admission-path granularity (see conc.go).
package c02

import (
	"encoding/json"
	"fmt"
	"sort"
	"strings"

	sentinel "github.com/alibaba/sentinel-golang/api"
	"github.com/alibaba/sentinel-golang/core/base"
	"github.com/alibaba/sentinel-golang/core/flow"
	"github.com/alibaba/sentinel-golang/core/stat"

	"verifharness/engine/seq"
	"verifharness/env"
	"verifharness/props"
	"verifharness/report"
)

type RuleSpec struct {
	T        float64 `json:"t"`
	Interval uint32  `json:"interval"`
	Assoc    bool    `json:"assoc"`
}

type Config struct {
	G     env.Geometry `json:"g"`
	Rules []RuleSpec   `json:"rules"`
	T0    int64        `json:"t0"`
	// ReloadT > 0: the alphabet has a reload that replaces rule #0 by one whose threshold is toggled
	// between its own and ReloadT; statistic parameters unchanged, so the admitted tokens already in
	// its window keep counting
	ReloadT float64 `json:"reload_threshold,omitempty"`
	// ReloadAll: the reload modifies every rule of the resource (rule #i > 0 toggles between T and T+1), so
	// several modified rules look for statistics to take over in the same load
	ReloadAll bool `json:"reload_all,omitempty"`
	// ThrottleFront: a permissive throttling rule (1000 per second, queueing up to 1 s) is listed in front of the
	// reject rules: requests at one instant are queued by it and must still be checked by the rules behind it
	ThrottleFront bool `json:"throttling_rule_in_front,omitempty"`
	// ReloadRef: rule #0 is an associated-resource rule and the reload changes ONLY its RefResource (toggling
	// between "b" and "c"): afterwards the tokens of the newly referenced resource decide
	ReloadRef bool `json:"reload_ref_resource,omitempty"`
}

func (c Config) String() string {
	b, _ := json.Marshal(c)
	return string(b)
}

// window geometry of a rule, stated independently of the implementation's objects: bucket
// length and interval of the statistic window the rule is documented to use.
type winGeom struct {
	bl, iv int64
}

func tiles(n, iv, N, I int64) bool {
	if n <= 0 || iv <= 0 || iv%n != 0 {
		return false
	}
	bl := I / N
	return (iv/n)%bl == 0 && I%iv == 0
}

func geomOf(g env.Geometry, r RuleSpec) winGeom {
	arrI, arrN := int64(g.ArrIntervalMs), int64(g.ArrSamples)
	bl := arrI / arrN
	iv := int64(r.Interval)
	if iv == 0 || iv == int64(g.ViewIntervalMs) {
		return winGeom{bl, int64(g.ViewIntervalMs)}
	}
	sc := int64(1)
	if iv <= arrI && iv >= bl && iv%bl == 0 {
		sc = iv / bl
	}
	if tiles(sc, iv, arrN, arrI) {
		return winGeom{bl, iv} // view over the resource's global buckets
	}
	return winGeom{iv / sc, iv} // the rule's own buckets
}

type admit struct {
	t   int64
	res string
	tok int64
}

type opDef struct {
	reload bool
	req    bool
	res    string
	batch  uint32
	tick   int64
}

func (o opDef) String() string {
	if o.reload {
		return "reload(thresholds toggled)"
	}
	if o.req {
		return fmt.Sprintf("req(%s,%d)", o.res, o.batch)
	}
	return fmt.Sprintf("tick(%d)", o.tick)
}

type scen struct {
	cfg   Config
	ops   []opDef
	rules []*flow.Rule
	geoms []winGeom
	adm   []admit
	now   int64
	ref0  string // resource rule #0 refers to (ReloadRef configurations)
	lcm   int64
	th    []float64 // thresholds in force
}

func (s *scen) Name() string { return s.cfg.String() }
func (s *scen) NumOps() int  { return len(s.ops) }
func (s *scen) OpName(i int) string {
	if s.ops[i].reload && s.cfg.ReloadRef {
		return "reload(RefResource toggled)"
	}
	return s.ops[i].String()
}
func (s *scen) Enabled(i int) bool { return true }

func gcd(a, b int64) int64 {
	for b != 0 {
		a, b = b, a%b
	}
	return a
}

func (s *scen) Reset() {
	env.ResetAll(s.cfg.G, s.cfg.T0)
	s.now = s.cfg.T0
	s.adm = s.adm[:0]
	s.rules = s.rules[:0]
	s.geoms = s.geoms[:0]
	s.lcm = int64(s.cfg.G.ArrIntervalMs)
	s.th = s.th[:0]
	s.ref0 = "b"
	for i, r := range s.cfg.Rules {
		s.th = append(s.th, r.T)
		fr := &flow.Rule{ID: fmt.Sprint(i), Resource: "a", TokenCalculateStrategy: flow.Direct, ControlBehavior: flow.Reject,
			Threshold: r.T, StatIntervalInMs: r.Interval}
		if r.Assoc {
			fr.RelationStrategy = flow.AssociatedResource
			fr.RefResource = "b"
		}
		s.rules = append(s.rules, fr)
		g := geomOf(s.cfg.G, r)
		s.geoms = append(s.geoms, g)
		s.lcm = s.lcm / gcd(s.lcm, g.iv) * g.iv
	}
	if _, err := flow.LoadRules(s.loadList()); err != nil {
		panic(err)
	}
}

// loadList is the list handed to LoadRules: the reject rules, behind the throttling rule if the configuration has one.
func (s *scen) loadList() []*flow.Rule {
	if !s.cfg.ThrottleFront {
		return s.rules
	}
	front := &flow.Rule{ID: "front", Resource: "a", TokenCalculateStrategy: flow.Direct, ControlBehavior: flow.Throttling, Threshold: 1000, MaxQueueingTimeMs: 1000}
	return append([]*flow.Rule{front}, s.rules...)
}

// refOf: the resource whose admitted tokens rule #i counts
func (s *scen) refOf(i int) string {
	if !s.cfg.Rules[i].Assoc {
		return "a"
	}
	if i == 0 && s.cfg.ReloadRef {
		return s.ref0
	}
	return "b"
}

func (s *scen) winSum(i int, now int64) int64 {
	g := s.geoms[i]
	res := s.refOf(i)
	cur := now - now%g.bl
	lo := cur - g.iv + g.bl
	var sum int64
	for _, a := range s.adm {
		if a.res != res {
			continue
		}
		st := a.t - a.t%g.bl
		if st >= lo && st <= cur {
			sum += a.tok
		}
	}
	return sum
}

func (s *scen) Apply(i int) (string, string) {
	o := s.ops[i]
	if o.reload && s.cfg.ReloadRef {
		nr := *s.rules[0]
		if s.ref0 == "b" {
			s.ref0 = "c"
		} else {
			s.ref0 = "b"
		}
		nr.RefResource = s.ref0
		s.rules[0] = &nr
		if _, err := flow.LoadRules(s.loadList()); err != nil {
			return "", "reload failed: " + err.Error()
		}
		if len(flow.GetRulesOfResource("a")) != len(s.loadList()) {
			return "", "after the reload the resource does not have all its rules"
		}
		return "", ""
	}
	if o.reload {
		nr := *s.rules[0]
		if s.th[0] == s.cfg.Rules[0].T {
			s.th[0] = s.cfg.ReloadT
		} else {
			s.th[0] = s.cfg.Rules[0].T
		}
		nr.Threshold = s.th[0]
		s.rules[0] = &nr
		for i := 1; i < len(s.rules) && s.cfg.ReloadAll; i++ {
			ni := *s.rules[i]
			if s.th[i] == s.cfg.Rules[i].T {
				s.th[i] = s.cfg.Rules[i].T + 1
			} else {
				s.th[i] = s.cfg.Rules[i].T
			}
			ni.Threshold = s.th[i]
			s.rules[i] = &ni
		}
		if _, err := flow.LoadRules(s.loadList()); err != nil {
			return "", "reload failed: " + err.Error()
		}
		if len(flow.GetRulesOfResource("a")) != len(s.loadList()) {
			return "", "after the reload the resource does not have all its rules"
		}
		return "", ""
	}
	if !o.req {
		s.now += o.tick
		env.Clock.SetMs(s.now)
		return "", ""
	}
	// expected decision
	blockedBy := -1
	var trigVal int64
	if o.res == "a" {
		for ri := range s.rules {
			sum := s.winSum(ri, s.now)
			if float64(sum)+float64(o.batch) > s.th[ri] {
				blockedBy, trigVal = ri, sum
				break
			}
		}
	}
	e, blk := sentinel.Entry(o.res, batchOpt(o.batch)...)
	obs := "pass"
	if blk != nil {
		obs = "block"
		if e != nil {
			return obs, "Entry returned both an entry and a block error"
		}
		if blk.BlockType() != base.BlockTypeFlow {
			return obs, fmt.Sprintf("t=%d %v: blocked with type %v, expected a flow block", s.now, o, blk.BlockType())
		}
		if blockedBy < 0 {
			return obs, fmt.Sprintf("t=%d %v: spurious rejection (rule %v, value %v); reference window sums %v", s.now, o, blk.TriggeredRule(), blk.TriggeredValue(), s.sums())
		}
		tr, _ := blk.TriggeredRule().(*flow.Rule)
		if tr != s.rules[blockedBy] {
			return obs, fmt.Sprintf("t=%d %v: rejected by rule %v, expected first violated rule #%d; sums %v", s.now, o, blk.TriggeredRule(), blockedBy, s.sums())
		}
		if tv, ok := blk.TriggeredValue().(float64); !ok || tv != float64(trigVal) {
			return obs, fmt.Sprintf("t=%d %v: triggered value %v, reference window sum %d", s.now, o, blk.TriggeredValue(), trigVal)
		}
		obs = fmt.Sprintf("block%d@%d", blockedBy, trigVal)
	} else {
		if e == nil {
			return obs, "Entry returned neither entry nor block error"
		}
		e.Exit()
		if blockedBy >= 0 {
			return obs, fmt.Sprintf("t=%d %v: admitted although rule #%d (T=%v, interval=%d) already holds %d tokens in its window", s.now, o, blockedBy, s.th[blockedBy], s.cfg.Rules[blockedBy].Interval, trigVal)
		}
		s.adm = append(s.adm, admit{s.now, o.res, int64(o.batch)})
	}
	return obs, ""
}

func (s *scen) sums() []int64 {
	out := make([]int64, len(s.rules))
	for i := range s.rules {
		out[i] = s.winSum(i, s.now)
	}
	return out
}

func (s *scen) Key() string {
	var b strings.Builder
	fmt.Fprintf(&b, "%v%s|", s.th, s.ref0)
	if s.now < 3*s.lcm {
		fmt.Fprintf(&b, "abs%d|", s.now)
	} else {
		fmt.Fprintf(&b, "ph%d|", s.now%s.lcm)
	}
	for _, res := range []string{"a", "b", "c"} {
		if n := stat.GetResourceNode(res); n != nil {
			bk, _ := n.VerifArr().VerifDump()
			for _, x := range bk {
				fmt.Fprintf(&b, "%d:%d;", int64(x.Start)-s.now, x.Counter[base.MetricEventPass])
			}
		}
		b.WriteString("|")
	}
	for _, c := range flow.VerifControllers("a") {
		if c.Standalone != nil {
			bk, _ := c.Standalone.VerifDump()
			for _, x := range bk {
				fmt.Fprintf(&b, "%d:%d;", int64(x.Start)-s.now, x.Counter[base.MetricEventPass])
			}
			b.WriteString("|")
		}
	}
	// reference: per rule, per bucket sums relative to the current bucket, two windows back
	for i, g := range s.geoms {
		res := s.refOf(i)
		cur := s.now - s.now%g.bl
		m := map[int64]int64{}
		for _, a := range s.adm {
			st := a.t - a.t%g.bl
			if a.res == res && st >= cur-2*g.iv {
				m[st-cur] += a.tok
			}
		}
		ks := make([]int64, 0, len(m))
		for k := range m {
			ks = append(ks, k)
		}
		sort.Slice(ks, func(x, y int) bool { return ks[x] < ks[y] })
		for _, k := range ks {
			fmt.Fprintf(&b, "%d=%d,", k, m[k])
		}
		b.WriteString("/")
	}
	return b.String()
}

func mkOps(cfg Config) []opDef {
	ops := []opDef{{req: true, res: "a", batch: 1}, {req: true, res: "a", batch: 2}, {req: true, res: "a", batch: 4}}
	if cfg.ReloadT > 0 || cfg.ReloadRef {
		ops = append(ops, opDef{reload: true})
	}
	if cfg.ReloadRef {
		ops = append(ops, opDef{req: true, res: "c", batch: 1}, opDef{req: true, res: "c", batch: 2})
	}
	assoc := false
	for _, r := range cfg.Rules {
		if r.Assoc {
			assoc = true
		}
		if r.T == 0 && len(ops) < 4+len(cfg.Rules) {
			// under a threshold of 0 the only request that fits is the one for no tokens: 0 + 0 <= 0
			ops = append(ops, opDef{req: true, res: "a", batch: 0})
		}
	}
	if assoc {
		ops = append(ops, opDef{req: true, res: "b", batch: 1}, opDef{req: true, res: "b", batch: 2})
	}
	arrI := int64(cfg.G.ArrIntervalMs)
	bl := arrI / int64(cfg.G.ArrSamples)
	seen := map[int64]bool{}
	add := func(d int64) {
		if d > 0 && !seen[d] {
			seen[d] = true
			ops = append(ops, opDef{tick: d})
		}
	}
	for _, d := range []int64{1, bl - 1, bl, bl + 1} {
		add(d)
	}
	for _, r := range cfg.Rules {
		g := geomOf(cfg.G, r)
		for _, d := range []int64{g.iv - 1, g.iv, g.iv + 1, g.bl} {
			add(d)
		}
	}
	add(arrI)
	add(arrI + 1)
	add(3*arrI + bl/2)
	return ops
}

var scaled = env.Geometry{ArrSamples: 4, ArrIntervalMs: 40, ViewSamples: 2, ViewIntervalMs: 20}

func configs(quick bool) []Config {
	var out []Config
	type gk struct {
		g     env.Geometry
		kinds []uint32
		t0s   []int64
	}
	gs := []gk{
		{scaled, []uint32{0, 20, 40, 10, 30, 15, 5, 100}, []int64{400000, 400013}},
		// 1250 and 625 divide the array interval and exceed its bucket length without being multiples of it
		{env.DefaultGeometry, []uint32{0, 1000, 2000, 10000, 500, 1500, 700, 300, 15000, 1250, 625}, []int64{1700000000000, 1700000000777}},
	}
	ths := []float64{0, 0.5, 1, 2, 2.5, 3}
	for _, g := range gs {
		for _, t0 := range g.t0s {
			// single rule: every threshold x every interval kind
			for _, k := range g.kinds {
				for _, t := range ths {
					if quick && (t == 0.5 || t == 3) && k != 0 {
						continue
					}
					out = append(out, Config{G: g.g, Rules: []RuleSpec{{t, k, false}}, T0: t0})
				}
			}
			// two rules on the resource: list order decides who is reported
			for _, k := range g.kinds[1:] {
				out = append(out, Config{G: g.g, Rules: []RuleSpec{{3, 0, false}, {2, k, false}}, T0: t0})
				out = append(out, Config{G: g.g, Rules: []RuleSpec{{2, k, false}, {3, 0, false}}, T0: t0})
			}
			// a reload of the (modified) rule in the middle of the history
			for _, k := range []uint32{g.kinds[0], g.kinds[1], g.kinds[5]} {
				out = append(out, Config{G: g.g, Rules: []RuleSpec{{2, k, false}}, T0: t0, ReloadT: 3})
			}
			out = append(out, Config{G: g.g, Rules: []RuleSpec{{3, g.kinds[5], false}, {2, 0, false}}, T0: t0, ReloadT: 1})
			// a throttling rule in front of the reject rule(s)
			out = append(out, Config{G: g.g, Rules: []RuleSpec{{2, 0, false}}, T0: t0, ThrottleFront: true})
			out = append(out, Config{G: g.g, Rules: []RuleSpec{{3, g.kinds[5], false}, {2, 0, false}}, T0: t0, ThrottleFront: true})
			// two modified rules with the same statistic parameters in one load (standalone window, and the default)
			out = append(out, Config{G: g.g, Rules: []RuleSpec{{3, g.kinds[5], false}, {1, g.kinds[5], false}}, T0: t0, ReloadT: 2, ReloadAll: true})
			out = append(out, Config{G: g.g, Rules: []RuleSpec{{3, 0, false}, {1, 0, false}}, T0: t0, ReloadT: 2, ReloadAll: true})
			// (once per geometry) a clock that has just started: windows reaching back before time zero
			if t0 == g.t0s[0] {
				near := int64(g.g.ArrIntervalMs)/100 + 3 // 3 ms and 103 ms: inside the first bucket, not the instant 0 itself
				for _, k := range g.kinds {
					out = append(out, Config{G: g.g, Rules: []RuleSpec{{2, k, false}}, T0: near})
				}
				// ... and a clock half a bucket before bucket number 2^32 of the resource's array (January 2038 for
				// 500 ms buckets): the histories cross it
				bl := int64(g.g.ArrIntervalMs) / int64(g.g.ArrSamples)
				for _, k := range []uint32{g.kinds[0], g.kinds[1], g.kinds[3]} {
					out = append(out, Config{G: g.g, Rules: []RuleSpec{{2, k, false}}, T0: (int64(1)<<32)*bl - bl/2 - 1})
				}
			}
			// a reload that changes only the resource an associated rule refers to
			out = append(out, Config{G: g.g, Rules: []RuleSpec{{2, 0, true}}, T0: t0, ReloadRef: true})
			// associated-resource rules (the referenced resource has its own traffic)
			for _, k := range g.kinds {
				out = append(out, Config{G: g.g, Rules: []RuleSpec{{2, k, true}}, T0: t0})
				if !quick {
					out = append(out, Config{G: g.g, Rules: []RuleSpec{{2, k, true}, {3, 0, false}}, T0: t0})
				}
			}
		}
	}
	return out
}

func signature(cfg Config, what string) string {
	kind := "own"
	for _, r := range cfg.Rules {
		if r.Assoc {
			kind = "assoc"
		}
	}
	standalone := false
	for _, r := range cfg.Rules {
		g := geomOf(cfg.G, r)
		arrbl := int64(cfg.G.ArrIntervalMs) / int64(cfg.G.ArrSamples)
		if !(g.bl == arrbl && tiles(g.iv/g.bl, g.iv, int64(cfg.G.ArrSamples), int64(cfg.G.ArrIntervalMs))) {
			standalone = true
		}
	}
	w := "standalone-window"
	if !standalone {
		w = "shared-window"
	}
	cls := "other"
	switch {
	case strings.Contains(what, "spurious rejection"):
		cls = "spurious-rejection"
	case strings.Contains(what, "admitted although"):
		cls = "over-admission"
	case strings.Contains(what, "triggered value"):
		cls = "triggered-value"
	case strings.Contains(what, "rejected by rule"):
		cls = "wrong-rule-reported"
	}
	return fmt.Sprintf("C02:%s:%s:%s", cls, kind, w)
}

type replayDoc struct {
	Kind string   `json:"kind"`
	Cfg  Config   `json:"cfg"`
	Path []int    `json:"path"`
	Ops  []string `json:"ops"`
}

func run(c *props.Ctx) {
	cfgs := configs(c.Quick())
	c.R.Bounds["configs"] = len(cfgs)
	dScaled, dDefault := 6, 4
	if !c.Quick() {
		dScaled, dDefault = 8, 6
	}
	c.R.Bounds["depth_scaled_geometry"] = dScaled
	c.R.Bounds["depth_default_geometry"] = dDefault
	for i, cfg := range cfgs {
		if !c.Mine(i) {
			continue
		}
		if c.Expired() {
			c.R.Cap("time budget reached before all configurations were explored")
			break
		}
		s := &scen{cfg: cfg, ops: mkOps(cfg)}
		d := dDefault
		if cfg.G == scaled {
			d = dScaled
		}
		res := seq.Explore(s, seq.Options{Depth: d, Deadline: c.Deadline, MaxStates: 2000000, Classify: func(w string) string { return signature(cfg, w) }})
		c.R.States += int64(res.States)
		c.R.Transitions += res.Transitions
		c.R.Evaluations += res.Transitions
		c.R.Traces += res.Transitions
		for o := range res.Obs {
			c.R.Outcome(fmt.Sprintf("%d|%s", i, o))
		}
		if res.CapHit != "" && res.CapHit != "violation limit" {
			c.R.Cap(res.CapHit)
		}
		if i%37 == 0 {
			c.R.Sample(map[string]interface{}{"config": cfg, "states": res.States, "transitions": res.Transitions, "depth": res.Depth, "path": res.SamplePath})
		}
		for _, v := range res.Violations {
			c.R.Violate(report.Violation{Signature: signature(cfg, v.What), What: v.What, Scenario: cfg.String() + " " + strings.Join(v.Ops, " "),
				Replay: replayDoc{Kind: "seq", Cfg: cfg, Path: v.Path, Ops: v.Ops}})
		}
	}
	runConc(c)
}

func replay(c *props.Ctx, raw json.RawMessage) (bool, string) {
	var d replayDoc
	if err := json.Unmarshal(raw, &d); err != nil {
		return false, err.Error()
	}
	if d.Kind == "conc" {
		return replayConc(raw)
	}
	s := &scen{cfg: d.Cfg, ops: mkOps(d.Cfg)}
	w := seq.Replay(s, d.Path)
	return w != "", w
}

func init() {
	props.Register(&props.Prop{ID: "C02", Run: run, Replay: replay})
}

// batchOpt passes the batch count the way callers do: a request of one token names no batch count at all, so
// the default of the (pooled) entry options is part of what is checked.
func batchOpt(b uint32) []sentinel.EntryOption {
	if b == 1 {
		return nil
	}
	return []sentinel.EntryOption{sentinel.WithBatchCount(b)}
}
