package c01

import (
	"encoding/json"
	"fmt"
	"strings"

	sentinel "github.com/alibaba/sentinel-golang/api"
	"github.com/alibaba/sentinel-golang/core/base"
	"github.com/alibaba/sentinel-golang/core/hotspot"
	"github.com/alibaba/sentinel-golang/core/stat"
	"github.com/alibaba/sentinel-golang/verifshim/vsched"

	"verifharness/engine/sched"
	"verifharness/env"
	"verifharness/props"
	"verifharness/report"
)

// concScen: threads each run Entry -> [TraceError] -> Exit on the global chain, at the
// granularity of every shimmed atomic / lock / pool operation, preemption bounded.
type concScen struct {
	Progs []cprog `json:"progs"`
	res   []cres
	pre   []*base.SentinelEntry
}

type cprog struct {
	Res   string `json:"res"`
	Arg   string `json:"arg"` // "" = no argument
	Trace bool   `json:"trace"`
	Batch uint32 `json:"batch"`
	// Pre: the entry was made before the threads start (the thread only traces / exits it);
	// Helper: the thread makes no entry of its own, it calls Exit on thread 0's entry - two callers exit ONE entry
	Pre    bool `json:"entry_made_before,omitempty"`
	Helper bool `json:"exits_entry_of_thread_0,omitempty"`
}

type cres struct {
	passed, done bool
	argsOK       bool
	errOK        bool
}

func (s *concScen) name() string { b, _ := json.Marshal(s.Progs); return string(b) }

func (s *concScen) setup() {
	env.ResetAll(env.DefaultGeometry, T0)
	if _, err := hotspot.LoadRules([]*hotspot.Rule{{Resource: "r1", MetricType: hotspot.Concurrency, ParamIndex: 0, Threshold: 5}}); err != nil {
		panic(err)
	}
	s.res = make([]cres, len(s.Progs))
	s.pre = make([]*base.SentinelEntry, len(s.Progs))
	for i, p := range s.Progs {
		if p.Pre {
			e, blk := sentinel.Entry(p.Res, s.optsOf(p)...)
			if blk != nil {
				panic("harness: pre-made entry blocked")
			}
			s.pre[i] = e
		}
	}
}

func (s *concScen) optsOf(p cprog) []sentinel.EntryOption {
	opts := []sentinel.EntryOption{sentinel.WithBatchCount(p.Batch)}
	if p.Res == "r2" {
		opts = append(opts, sentinel.WithTrafficType(base.Inbound))
	}
	if p.Arg != "" {
		opts = append(opts, sentinel.WithArgs(p.Arg))
	}
	return opts
}

func (s *concScen) threads() []func() {
	fns := make([]func(), len(s.Progs))
	for i := range s.Progs {
		i := i
		p := s.Progs[i]
		fns[i] = func() {
			r := &s.res[i]
			if p.Helper {
				s.pre[0].Exit()
				r.passed, r.argsOK, r.errOK, r.done = true, true, true, true
				return
			}
			var e *base.SentinelEntry
			var blk *base.BlockError
			if p.Pre {
				e = s.pre[i]
			} else {
				e, blk = sentinel.Entry(p.Res, s.optsOf(p)...)
			}
			if blk == nil && e != nil {
				r.passed = true
				if p.Trace {
					sentinel.TraceError(e, errs[i])
				}
				// the caller's own work between Entry and Exit: a yield, so that "the other thread runs
				// while this entry is held" is the default schedule and costs no preemption
				vsched.Yield()
				ctx := e.Context()
				r.argsOK = (p.Arg == "" && len(ctx.Input.Args) == 0) || (len(ctx.Input.Args) == 1 && ctx.Input.Args[0] == p.Arg)
				r.errOK = (p.Trace && ctx.Err() == errs[i]) || (!p.Trace && ctx.Err() == nil)
				if p.Pre {
					// another caller may have exited this entry already: its context is no longer its own
					r.argsOK, r.errOK = true, true
				}
				e.Exit()
			}
			r.done = true
		}
	}
	return fns
}

func (s *concScen) check(x *vsched.Exec) (string, string) {
	out := ""
	want := map[string][5]int64{}
	for i, p := range s.Progs {
		r := s.res[i]
		if !r.done {
			return "UNFINISHED", "a thread did not finish"
		}
		if !r.passed {
			return "BLOCKED", fmt.Sprintf("thread %d was blocked although no rule can block it", i)
		}
		if !r.argsOK {
			return "ARGS", fmt.Sprintf("thread %d: its live entry's arguments were overwritten by another entry", i)
		}
		if !r.errOK {
			return "ERR", fmt.Sprintf("thread %d: its live entry's error was changed by another entry", i)
		}
		if p.Helper {
			continue
		}
		for _, n := range nodesOf(p.Res) {
			w := want[n]
			w[0] += int64(p.Batch)
			w[2] += int64(p.Batch)
			if p.Trace {
				w[3] += int64(p.Batch)
			}
			want[n] = w
		}
	}
	for n, w := range want {
		var node *stat.ResourceNode
		if n == "in" {
			node = stat.InboundNode()
		} else {
			node = stat.GetResourceNode(n)
		}
		if node == nil {
			return out, "missing node " + n
		}
		if g := node.CurrentConcurrency(); g != 0 {
			return out, fmt.Sprintf("concurrency of %s = %d after every entry exited", n, g)
		}
		for _, e := range []int{0, 1, 2, 3} {
			if g := node.GetSum(implEv[e]); g != w[e] {
				return out, fmt.Sprintf("%s.GetSum(%s) = %d, expected %d", n, evName[e], g, w[e])
			}
		}
	}
	hs := hotspot.VerifConcurrency("r1")
	for _, kv := range parseCounts(hs) {
		if kv != 0 {
			return out, "hotspot per-value in-flight counter not back to zero: " + hs
		}
	}
	return "ok", ""
}

func parseCounts(s string) []int64 {
	// counters are printed as {K V}; extract the numbers following a space before '}'
	var out []int64
	for i := 0; i < len(s); i++ {
		if s[i] == '}' {
			j := i - 1
			for j >= 0 && (s[j] >= '0' && s[j] <= '9' || s[j] == '-') {
				j--
			}
			var v int64
			fmt.Sscan(s[j+1:i], &v)
			out = append(out, v)
		}
	}
	return out
}

func nodesOf(res string) []string {
	if res == "r2" {
		return []string{"r2", "in"}
	}
	return []string{res}
}

func (s *concScen) scenario() *sched.Scenario {
	return &sched.Scenario{Name: s.name(), Setup: s.setup, Threads: s.threads, Check: s.check, MaxSteps: 200000}
}

type concReplay struct {
	Kind    string  `json:"kind"`
	Progs   []cprog `json:"progs"`
	Choices []int   `json:"choices"`
}

func runConc(c *props.Ctx) {
	scs := []*concScen{
		{Progs: []cprog{{Res: "r1", Arg: "A", Batch: 1}, {Res: "r1", Arg: "B", Batch: 1}}},
		{Progs: []cprog{{Res: "r1", Arg: "A", Trace: true, Batch: 1}, {Res: "r1", Arg: "A", Batch: 1}}},
		{Progs: []cprog{{Res: "r1", Arg: "A", Trace: true, Batch: 1}, {Res: "r2", Batch: 3}}},
		{Progs: []cprog{{Res: "r2", Trace: true, Batch: 1}, {Res: "r2", Batch: 3}}},
		// one entry, two callers of Exit at the same time (Exit is idempotent: one completion)
		{Progs: []cprog{{Res: "r2", Batch: 2, Pre: true}, {Helper: true}}},
		{Progs: []cprog{{Res: "r1", Arg: "A", Batch: 1, Pre: true}, {Helper: true}, {Res: "r1", Arg: "A", Batch: 1}}},
	}
	bound := 1
	if !c.Quick() {
		bound = 2
	}
	c.R.Bounds["concurrent_preemption_bound"] = bound
	for i, s := range scs {
		if !c.Mine(2 + i) {
			continue
		}
		res := sched.Explore(s.scenario(), sched.Options{Bound: bound, Deadline: c.Deadline, MaxExecs: 3000000})
		c.R.Evaluations += int64(res.Execs)
		c.R.Traces += int64(res.Execs)
		c.R.Transitions += res.Steps
		c.R.States += int64(res.States)
		for o := range res.Outcomes {
			c.R.Outcome("conc|" + s.name() + "|" + o)
		}
		if res.HarnessErr != "" {
			c.R.HarnessError(s.name() + ": " + res.HarnessErr)
		}
		if res.CapHit != "" {
			c.R.Cap(res.CapHit)
		}
		c.R.Sample(map[string]interface{}{"concurrent": s.name(), "schedules": res.Execs, "bound": bound})
		for _, v := range res.Violations {
			cls := v.Outcome
			if cls == "" {
				cls = "accounting-mismatch"
				if strings.Contains(v.What, "concurrency of") {
					cls = "gauge-mismatch"
				} else if strings.Contains(v.What, "hotspot per-value") {
					cls = "hotspot-counter-not-zero"
				} else if strings.Contains(v.What, "missing node") {
					cls = "missing-node"
				}
			}
			c.R.Violate(report.Violation{Signature: "C01:concurrent:" + cls, What: v.What, Scenario: s.name(),
				Replay: concReplay{Kind: "conc", Progs: s.Progs, Choices: v.Choices}})
		}
	}
}

func replayConc(raw json.RawMessage) (bool, string) {
	var d concReplay
	if err := json.Unmarshal(raw, &d); err != nil {
		return false, err.Error()
	}
	s := &concScen{Progs: d.Progs}
	_, w := sched.Replay(s.scenario(), d.Choices, nil)
	return w != "", w
}
