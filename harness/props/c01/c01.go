// Package c01: Entry/Exit accounting is conserved and correctly attributed.
//
// Engine B: all histories of Entry / TraceError / Exit / Exit(WithError) / repeated and late
// Exit over an outbound and an inbound resource, batch counts, argument lists (including one
// that makes the hotspot rule check panic), pool hit/miss answers and clock advances, on the
// global chain and on a custom chain with a recording statistic slot and panicking
// prepare / rule-check slots, against a ledger + ref/window reference.
// Engine A: two threads Entry -> [TraceError] -> Exit (conc.go).
package c01

import (
	"encoding/json"
	"errors"
	"fmt"
	"reflect"
	"strings"

	sentinel "github.com/alibaba/sentinel-golang/api"
	"github.com/alibaba/sentinel-golang/core/base"
	"github.com/alibaba/sentinel-golang/core/flow"
	"github.com/alibaba/sentinel-golang/core/hotspot"
	"github.com/alibaba/sentinel-golang/core/isolation"
	"github.com/alibaba/sentinel-golang/core/stat"
	vsync "github.com/alibaba/sentinel-golang/verifshim/vsync"

	"verifharness/chainx"
	"verifharness/engine/seq"
	"verifharness/env"
	"verifharness/props"
	"verifharness/ref/window"
	"verifharness/report"
)

type opKind int

const (
	okEnter opKind = iota
	okTrace
	okExit
	okExitErr
	okTick
	okMiss
)

const (
	flagNone       = 0
	flagPrepPanic  = 1
	flagCheckPanic = 2
	// the rule-check slot first writes a blocked verdict into the pooled result, then panics: the request is
	// admitted all the same, so it is a passed entry like any other
	flagCheckBlockThenPanic = 3
)

type opDef struct {
	Kind  opKind
	Res   string
	Batch uint32
	Args  int // index into argSets
	Flag  int32
	Slot  int
	Tick  int64
	// FailHandler (with okExit): an exit handler that returns an error is registered before the Exit
	FailHandler bool
}

var argSets = [][]interface{}{nil, {"A"}, {"B"}, {[]int{1}}}
var argNames = []string{"-", "[A]", "[B]", "[unhashable]"}

func (o opDef) String() string {
	switch o.Kind {
	case okEnter:
		f := ""
		if o.Flag == flagPrepPanic {
			f = ",prepare-panics"
		} else if o.Flag == flagCheckPanic {
			f = ",check-panics"
		} else if o.Flag == flagCheckBlockThenPanic {
			f = ",check-writes-block-then-panics"
		}
		return fmt.Sprintf("E(%s,%d,%s%s)", o.Res, o.Batch, argNames[o.Args], f)
	case okTrace:
		return fmt.Sprintf("T(%d)", o.Slot)
	case okExit:
		if o.FailHandler {
			return fmt.Sprintf("X(%d,failing-exit-handler)", o.Slot)
		}
		return fmt.Sprintf("X(%d)", o.Slot)
	case okExitErr:
		return fmt.Sprintf("XE(%d)", o.Slot)
	case okTick:
		return fmt.Sprintf("tick(%d)", o.Tick)
	}
	return "poolMiss"
}

const nSlots = 3
const T0 = 1700000000250

type slotRec struct {
	e       *base.SentinelEntry
	res     string
	batch   uint32
	args    []interface{}
	err     error // the entry's own error (nil if none)
	panicky bool  // an internal panic was contained during its Entry
	exited  bool
	start   int64
	id      int
}

type recEvent struct {
	kind  string
	res   string
	batch uint32
	err   error
	rt    uint64
	entry *base.SentinelEntry
}

type scen struct {
	Custom bool
	Quick  bool
	ops    []opDef
	slots  [nSlots]*slotRec
	nodes  map[string]*window.Model // r1, r2, inbound
	infl   map[string]int64
	now    int64
	misses int
	chain  *base.SlotChain
	hooks  chainx.Hooks
	log    []recEvent
	nextID int
}

var errs = []error{errors.New("biz-0"), errors.New("biz-1"), errors.New("biz-2")}
var exitErr = errors.New("exit-error")

func (s *scen) Name() string {
	if s.Custom {
		return "custom chain (recording stat slot, panicking prepare / rule-check slots)"
	}
	return "global chain"
}
func (s *scen) NumOps() int         { return len(s.ops) }
func (s *scen) OpName(i int) string { return s.ops[i].String() }

func (s *scen) Enabled(i int) bool {
	o := s.ops[i]
	switch o.Kind {
	case okEnter:
		live := 0
		free := false
		for _, r := range s.slots {
			if r == nil || r.exited {
				free = true
			} else {
				live++
			}
		}
		return free && live < nSlots
	case okTrace, okExit, okExitErr:
		return s.slots[o.Slot] != nil
	case okMiss:
		return s.misses < 1 && vsync.PoolMiss == nil
	}
	return true
}

type panicPrep struct{}

func (panicPrep) Order() uint32 { return 2000 } // after the stat prepare slot
func (panicPrep) Prepare(ctx *base.EntryContext) {
	if ctx.Input.Flag == flagPrepPanic {
		panic("harness prepare slot panic")
	}
}

type panicCheck struct{}

func (panicCheck) Order() uint32 { return 4500 } // between hotspot and circuit breaker checks
func (panicCheck) Check(ctx *base.EntryContext) *base.TokenResult {
	if ctx.Input.Flag == flagCheckBlockThenPanic {
		ctx.RuleCheckResult.ResetToBlockedWithMessage(base.BlockTypeFlow, "verdict written before the panic")
		panic("harness rule-check slot panic after writing a verdict")
	}
	if ctx.Input.Flag == flagCheckPanic {
		panic("harness rule-check slot panic")
	}
	return nil
}

func (s *scen) Reset() {
	env.ResetAll(env.DefaultGeometry, T0)
	s.now = T0
	s.misses = 0
	s.nextID = 0
	s.log = s.log[:0]
	for i := range s.slots {
		s.slots[i] = nil
	}
	s.nodes = map[string]*window.Model{"r1": {BL: 500}, "r2": {BL: 500}, "in": {BL: 500}}
	s.infl = map[string]int64{"r1": 0, "r2": 0, "in": 0}
	if _, err := hotspot.LoadRules([]*hotspot.Rule{{Resource: "r1", MetricType: hotspot.Concurrency, ParamIndex: 0, Threshold: 1}}); err != nil {
		panic(err)
	}
	if _, err := flow.LoadRules([]*flow.Rule{{Resource: "r2", Threshold: 2}}); err != nil {
		panic(err)
	}
	if _, err := isolation.LoadRules([]*isolation.Rule{{Resource: "r1", MetricType: isolation.Concurrency, Threshold: 2}}); err != nil {
		panic(err)
	}
	s.chain = nil
	if s.Custom {
		s.hooks = chainx.Hooks{
			Passed: func(ctx *base.EntryContext) {
				s.log = append(s.log, recEvent{"passed", ctx.Resource.Name(), ctx.Input.BatchCount, nil, 0, ctx.Entry()})
			},
			Blocked: func(ctx *base.EntryContext, _ *base.BlockError) {
				s.log = append(s.log, recEvent{"blocked", ctx.Resource.Name(), ctx.Input.BatchCount, nil, 0, ctx.Entry()})
			},
			Completed: func(ctx *base.EntryContext) {
				s.log = append(s.log, recEvent{"completed", ctx.Resource.Name(), ctx.Input.BatchCount, ctx.Err(), ctx.Rt(), ctx.Entry()})
			},
		}
		s.chain = chainx.NewPhaseChain(&s.hooks)
		s.chain.AddStatPrepareSlot(panicPrep{})
		s.chain.AddRuleCheckSlot(panicCheck{})
	}
}

func (s *scen) nodesOf(res string) []string {
	if res == "r2" {
		return []string{"r2", "in"}
	}
	return []string{res}
}

func (s *scen) record(res string, ev int, amt int64) {
	for _, n := range s.nodesOf(res) {
		s.nodes[n].Add(s.now, ev, amt)
	}
}

func (s *scen) Apply(i int) (obs string, viol string) {
	o := s.ops[i]
	defer func() {
		if r := recover(); r != nil {
			viol = fmt.Sprintf("%v: panic reached the caller: %v", o, r)
		}
	}()
	logStart := len(s.log)
	switch o.Kind {
	case okTick:
		s.now += o.Tick
		env.Clock.SetMs(s.now)
	case okMiss:
		s.misses++
		vsync.PoolMiss = func() bool { vsync.PoolMiss = nil; return true }
	case okEnter:
		args := argSets[o.Args]
		opts := []sentinel.EntryOption{}
		if o.Batch != 1 { // a one-token request names no batch count: the default of the pooled options is checked too
			opts = append(opts, sentinel.WithBatchCount(o.Batch))
		}
		if o.Res == "r2" {
			opts = append(opts, sentinel.WithTrafficType(base.Inbound))
		}
		if args != nil {
			opts = append(opts, sentinel.WithArgs(args...))
		}
		if o.Flag != 0 {
			opts = append(opts, sentinel.WithFlag(o.Flag))
		}
		if s.chain != nil {
			opts = append(opts, sentinel.WithSlotChain(s.chain))
		}
		e, blk := sentinel.Entry(o.Res, opts...)
		if (e == nil) == (blk == nil) {
			return "", fmt.Sprintf("%v: Entry returned entry=%v and block=%v (exactly one expected)", o, e != nil, blk != nil)
		}
		panicky := o.Args == 3 || o.Flag != 0
		if blk != nil {
			obs = "B:" + blk.BlockType().String()
			if panicky && o.Flag != 0 {
				// a panicking slot means "request passed"; only slots before it may block
			}
			s.record(o.Res, window.EvBlock, int64(o.Batch))
			if s.Custom {
				if v := s.expectLog(logStart, []recEvent{{kind: "blocked", res: o.Res, batch: o.Batch}}, nil); v != "" {
					return obs, fmt.Sprintf("%v: %s", o, v)
				}
			}
		} else {
			obs = "P"
			rec := &slotRec{e: e, res: o.Res, batch: o.Batch, args: args, start: s.now, id: s.nextID, panicky: panicky && e.Context().Err() != nil}
			s.nextID++
			placed := false
			for k := range s.slots {
				if s.slots[k] == nil {
					s.slots[k], placed = rec, true
					break
				}
			}
			if !placed {
				for k := range s.slots {
					if s.slots[k].exited {
						s.slots[k], placed = rec, true
						break
					}
				}
			}
			s.record(o.Res, window.EvPass, int64(o.Batch))
			for _, n := range s.nodesOf(o.Res) {
				s.infl[n]++
				s.nodes[n].Add(s.now, window.EvConc, s.infl[n])
			}
			if s.Custom {
				if v := s.expectLog(logStart, []recEvent{{kind: "passed", res: o.Res, batch: o.Batch, entry: e}}, nil); v != "" {
					return obs, fmt.Sprintf("%v: %s", o, v)
				}
			}
		}
	case okTrace:
		r := s.slots[o.Slot]
		sentinel.TraceError(r.e, errs[o.Slot])
		if !r.exited {
			r.err = errs[o.Slot]
		}
		if len(s.log) != logStart {
			return "", fmt.Sprintf("%v: TraceError triggered statistic callbacks", o)
		}
	case okExit, okExitErr:
		r := s.slots[o.Slot]
		if o.Kind == okExitErr {
			if !r.exited {
				r.err = exitErr
			}
			r.e.Exit(base.WithError(exitErr))
		} else {
			if o.FailHandler && !r.exited {
				r.e.WhenExit(func(*base.SentinelEntry, *base.EntryContext) error { return errors.New("exit handler failed") })
			}
			r.e.Exit()
		}
		if r.exited {
			obs = "late"
			if len(s.log) != logStart {
				return obs, fmt.Sprintf("%v: repeated Exit triggered statistic callbacks", o)
			}
		} else {
			r.exited = true
			rt := s.now - r.start
			s.record(r.res, window.EvComplete, int64(r.batch))
			s.record(r.res, window.EvRt, rt)
			hasErr := r.err != nil || r.panicky
			if hasErr {
				s.record(r.res, window.EvError, int64(r.batch))
			}
			for _, n := range s.nodesOf(r.res) {
				s.infl[n]--
			}
			if s.Custom {
				want := recEvent{kind: "completed", res: r.res, batch: r.batch, err: r.err, rt: uint64(rt), entry: r.e}
				if v := s.expectLog(logStart, []recEvent{want}, r); v != "" {
					return obs, fmt.Sprintf("%v: %s", o, v)
				}
			}
		}
	}
	return o.String() + "=" + obs, s.invariants(o)
}

// expectLog: the recording slot must have heard exactly these callbacks during the op.
func (s *scen) expectLog(from int, want []recEvent, r *slotRec) string {
	got := s.log[from:]
	if len(got) != len(want) {
		return fmt.Sprintf("recording slot heard %d callbacks %v, expected %d", len(got), kinds(got), len(want))
	}
	for i := range want {
		g, w := got[i], want[i]
		if g.kind != w.kind || g.res != w.res || g.batch != w.batch {
			return fmt.Sprintf("recording slot heard %s(res=%s,batch=%d), expected %s(res=%s,batch=%d)", g.kind, g.res, g.batch, w.kind, w.res, w.batch)
		}
		if w.entry != nil && g.entry != w.entry {
			return fmt.Sprintf("recording slot callback %s carries another entry's context", g.kind)
		}
		if w.kind == "completed" {
			if r != nil && !r.panicky && g.err != w.err {
				return fmt.Sprintf("completion reported error %v, the entry's own error is %v", g.err, w.err)
			}
			if g.rt != w.rt {
				return fmt.Sprintf("completion reported rt %d, expected %d", g.rt, w.rt)
			}
		}
	}
	return ""
}

func kinds(ev []recEvent) []string {
	var out []string
	for _, e := range ev {
		out = append(out, e.kind)
	}
	return out
}

var implEv = []base.MetricEvent{base.MetricEventPass, base.MetricEventBlock, base.MetricEventComplete, base.MetricEventError, base.MetricEventRt}
var evName = []string{"pass", "block", "complete", "error", "rt"}

func (s *scen) invariants(o opDef) string {
	for name, m := range s.nodes {
		var node *stat.ResourceNode
		if name == "in" {
			node = stat.InboundNode()
		} else {
			node = stat.GetResourceNode(name)
		}
		if node == nil {
			if len(m.Events) != 0 {
				return fmt.Sprintf("after %v: resource %s has no statistic node although it has traffic", o, name)
			}
			continue
		}
		if g := int64(node.CurrentConcurrency()); g != s.infl[name] {
			return fmt.Sprintf("after %v: concurrency of %s = %d, in-flight entries = %d", o, name, g, s.infl[name])
		}
		for e := 0; e < 5; e++ {
			if g, w := node.GetSum(implEv[e]), m.Sum(s.now, 1000, e); g != w {
				return fmt.Sprintf("after %v: %s.GetSum(%s) = %d, ledger says %d", o, name, evName[e], g, w)
			}
		}
	}
	for k, r := range s.slots {
		if r == nil || r.exited {
			continue
		}
		ctx := r.e.Context()
		if ctx == nil {
			return fmt.Sprintf("after %v: live entry %d has no context", o, k)
		}
		if !r.panicky && ctx.Err() != r.err {
			return fmt.Sprintf("after %v: live entry %d (%s) reports error %v, its own calls set %v", o, k, r.res, ctx.Err(), r.err)
		}
		if r.panicky && r.err != nil && ctx.Err() != r.err {
			return fmt.Sprintf("after %v: live entry %d (%s) reports error %v, its own calls set %v", o, k, r.res, ctx.Err(), r.err)
		}
		if len(r.args) != len(ctx.Input.Args) || (len(r.args) > 0 && !reflect.DeepEqual(r.args, ctx.Input.Args)) {
			return fmt.Sprintf("after %v: live entry %d (%s) carries args %v, it was entered with %v", o, k, r.res, ctx.Input.Args, r.args)
		}
		if ctx.Resource == nil || ctx.Resource.Name() != r.res || ctx.Input.BatchCount != r.batch {
			return fmt.Sprintf("after %v: live entry %d context now describes another request", o, k)
		}
	}
	return ""
}

func (s *scen) Key() string {
	var b strings.Builder
	fmt.Fprintf(&b, "ph%d|m%d%v|", s.now%1000, s.misses, vsync.PoolMiss != nil)
	for _, r := range s.slots {
		if r == nil {
			b.WriteString("_;")
			continue
		}
		fmt.Fprintf(&b, "%s,%d,%d,%v,%v,%v,%d;", r.res, r.batch, len(r.args), r.err, r.exited, r.panicky, s.now-r.start)
		if len(r.args) > 0 {
			fmt.Fprintf(&b, "%v", r.args[0])
		}
	}
	for _, name := range []string{"r1", "r2"} {
		if n := stat.GetResourceNode(name); n != nil {
			bk, _ := n.VerifArr().VerifDump()
			for _, x := range bk {
				if int64(x.Start) > s.now-11000 && (x.Counter != [5]int64{} || x.MaxConc != 0) {
					fmt.Fprintf(&b, "%d:%v:%d;", int64(x.Start)-s.now, x.Counter, x.MaxConc)
				}
			}
			fmt.Fprintf(&b, "c%d|", n.CurrentConcurrency())
		}
	}
	fmt.Fprintf(&b, "pools%v|", vsync.PoolSizes())
	fmt.Fprintf(&b, "hs%v", hotspot.VerifConcurrency("r1"))
	return b.String()
}

func mkOps(custom, quick bool) []opDef {
	ops := []opDef{
		{Kind: okEnter, Res: "r1", Batch: 1, Args: 1},
		{Kind: okEnter, Res: "r1", Batch: 1, Args: 2},
		{Kind: okEnter, Res: "r2", Batch: 1},
		{Kind: okEnter, Res: "r1", Batch: 1, Args: 3},
		{Kind: okEnter, Res: "r2", Batch: 3},
		{Kind: okEnter, Res: "r2", Batch: 0}, // an empty batch: no tokens, but an entry in flight
	}
	if !quick {
		ops = append(ops, opDef{Kind: okEnter, Res: "r1", Batch: 1}, opDef{Kind: okEnter, Res: "r1", Batch: 3, Args: 1})
	}
	if custom {
		ops = append(ops, opDef{Kind: okEnter, Res: "r1", Batch: 1, Args: 1, Flag: flagCheckPanic}, opDef{Kind: okEnter, Res: "r2", Batch: 1, Flag: flagCheckBlockThenPanic},
			opDef{Kind: okEnter, Res: "r2", Batch: 1, Flag: flagPrepPanic})
	}
	for k := 0; k < nSlots; k++ {
		ops = append(ops, opDef{Kind: okExit, Slot: k})
	}
	for k := 0; k < nSlots; k++ {
		ops = append(ops, opDef{Kind: okTrace, Slot: k})
	}
	for k := 0; k < nSlots; k++ {
		ops = append(ops, opDef{Kind: okExitErr, Slot: k})
	}
	ops = append(ops, opDef{Kind: okExit, Slot: 0, FailHandler: true})
	ops = append(ops, opDef{Kind: okTick, Tick: 7}, opDef{Kind: okTick, Tick: 600}, opDef{Kind: okMiss})
	return ops
}

func signature(what string) string {
	w := what
	// the known finding is the ACCOUNTING of an entry whose prepare slot panicked (pass not counted / callbacks
	// not made / gauge); anything else that happens at such an entry (a panic reaching the caller, another
	// entry's data overwritten, ...) keeps its own class
	if strings.Contains(w, "prepare-panics") && !strings.Contains(w, "panic reached the caller") && !strings.Contains(w, "carries args") &&
		!strings.Contains(w, "reports error") && !strings.Contains(w, "context now describes another") {
		return "C01:prepare-slot-panic-unaccounted"
	}
	switch {
	case strings.Contains(w, "panic reached the caller"):
		return "C01:panic-escapes"
	case strings.Contains(w, "carries args"):
		return "C01:live-entry-args-overwritten"
	case strings.Contains(w, "reports error"):
		return "C01:live-entry-error-overwritten"
	case strings.Contains(w, "context now describes another"):
		return "C01:live-entry-context-recycled"
	case strings.Contains(w, "concurrency of"):
		if strings.Contains(w, "unhashable") || strings.Contains(w, "panics") {
			return "C01:gauge-after-internal-panic"
		}
		return "C01:gauge-mismatch"
	case strings.Contains(w, "GetSum"):
		if strings.Contains(w, "unhashable") || strings.Contains(w, "panics") {
			return "C01:accounting-after-internal-panic"
		}
		return "C01:accounting-mismatch"
	case strings.Contains(w, "recording slot"), strings.Contains(w, "completion reported"), strings.Contains(w, "statistic callbacks"):
		return "C01:callback-mismatch"
	}
	return "C01:other"
}

type replayDoc struct {
	Kind   string   `json:"kind"`
	Custom bool     `json:"custom"`
	Quick  bool     `json:"quick"`
	Path   []int    `json:"path"`
	Ops    []string `json:"ops"`
}

func run(c *props.Ctx) {
	depth := 6
	if !c.Quick() {
		depth = 8
	}
	c.R.Bounds["depth"] = depth
	c.R.Bounds["pool_miss_deviations"] = 1
	for i, custom := range []bool{false, true} {
		if c.NShards > 1 && c.Shard%2 != i {
			continue
		}
		s := &scen{Custom: custom, Quick: c.Quick(), ops: mkOps(custom, c.Quick())}
		res := seq.Explore(s, seq.Options{Depth: depth, Deadline: c.Deadline, Classify: signature, MaxStates: 4000000, Shard: c.Shard / 2, NShards: (c.NShards + 1 - i) / 2})
		c.R.States += int64(res.States)
		c.R.Transitions += res.Transitions
		c.R.Evaluations += res.Transitions
		c.R.Traces += res.Transitions
		for o := range res.Obs {
			c.R.Outcome(fmt.Sprintf("%v|%s", custom, o))
		}
		if res.CapHit != "" && res.CapHit != "violation limit" {
			c.R.Cap(s.Name() + ": " + res.CapHit + fmt.Sprintf(" (depth completed %d)", res.Depth))
		}
		c.R.Sample(map[string]interface{}{"chain": s.Name(), "states": res.States, "transitions": res.Transitions, "depth": res.Depth, "path": res.SamplePath})
		for _, v := range res.Violations {
			c.R.Violate(report.Violation{Signature: signature(v.What), What: v.What, Scenario: s.Name() + ": " + strings.Join(v.Ops, " "),
				Replay: replayDoc{Kind: "seq", Custom: custom, Quick: c.Quick(), Path: v.Path, Ops: v.Ops}})
		}
	}
	// long holds: the same alphabet with a 90 s tick instead of the 7 ms one (an entry held for longer than the
	// default statistic maximum of 60 s completes with its own response time), to depth 4
	if c.Mine(1) {
		s := &scen{Custom: false, Quick: true, ops: longOps()}
		res := seq.Explore(s, seq.Options{Depth: 4, Deadline: c.Deadline, Classify: signature, MaxStates: 1000000})
		c.R.States += int64(res.States)
		c.R.Transitions += res.Transitions
		c.R.Evaluations += res.Transitions
		c.R.Traces += res.Transitions
		c.R.Bounds["long_hold_depth"] = 4
		for o := range res.Obs {
			c.R.Outcome("long|" + o)
		}
		if res.CapHit != "" && res.CapHit != "violation limit" {
			c.R.Cap("long holds: " + res.CapHit)
		}
		for _, v := range res.Violations {
			c.R.Violate(report.Violation{Signature: signature(v.What), What: v.What, Scenario: "long holds: " + strings.Join(v.Ops, " "),
				Replay: replayDoc{Kind: "seq-long", Custom: false, Quick: true, Path: v.Path, Ops: v.Ops}})
		}
	}
	if c.Mine(2) {
		queuedEntries(c)
	}
	runConc(c)
}

// queuedEntries: an entry that is made to wait inside Entry (a throttling flow rule; sleeping advances the
// clock) is one request from the moment Entry was called: its completion carries the whole response time,
// the wait included. k back-to-back requests under 10 per second, each exited at once.
func queuedEntries(c *props.Ctx) {
	for _, inbound := range []bool{false, true} {
		env.ResetAll(env.DefaultGeometry, T0)
		env.Clock.SleepAdvances = true
		if _, err := flow.LoadRules([]*flow.Rule{{Resource: "q", ControlBehavior: flow.Throttling, Threshold: 10, MaxQueueingTimeMs: 1000}}); err != nil {
			panic(err)
		}
		var wantRt, wantN int64
		for k := 0; k < 4; k++ {
			before := env.Clock.Ms()
			opts := []sentinel.EntryOption{}
			if inbound {
				opts = append(opts, sentinel.WithTrafficType(base.Inbound))
			}
			e, blk := sentinel.Entry("q", opts...)
			if blk != nil {
				break
			}
			e.Exit()
			wantRt += env.Clock.Ms() - before
			wantN++
		}
		c.R.Evaluations++
		c.R.Outcome(fmt.Sprintf("queued|%v|%d|%d", inbound, wantN, wantRt))
		nodes := []*stat.ResourceNode{stat.GetResourceNode("q")}
		if inbound {
			nodes = append(nodes, stat.InboundNode())
		}
		for _, n := range nodes {
			if n == nil {
				continue
			}
			if got, gotN := n.GetSum(base.MetricEventRt), n.GetSum(base.MetricEventComplete); got != wantRt || gotN != wantN {
				c.R.Violate(report.Violation{Signature: "C01:accounting-mismatch:queued-entry",
					What:     fmt.Sprintf("%d back-to-back requests under a throttling rule of 10 per second (inbound=%v): %d completions with a response-time sum of %d ms, the requests took %d ms between the call of Entry and Exit (%d completions)", wantN, inbound, gotN, got, wantRt, wantN),
					Scenario: "queued entries", Replay: replayDoc{Kind: "queued"}})
				break
			}
		}
	}
}

func longOps() []opDef {
	ops := mkOps(false, true)
	for i := range ops {
		if ops[i].Kind == okTick && ops[i].Tick == 7 {
			ops[i].Tick = 90000
		}
	}
	return ops
}

func replay(c *props.Ctx, raw json.RawMessage) (bool, string) {
	var d replayDoc
	if err := json.Unmarshal(raw, &d); err != nil {
		return false, err.Error()
	}
	if d.Kind == "conc" {
		return replayConc(raw)
	}
	if d.Kind == "queued" {
		return false, "the queued-entries cases are re-evaluated by the quick check itself"
	}
	s := &scen{Custom: d.Custom, Quick: d.Quick, ops: mkOps(d.Custom, d.Quick)}
	if d.Kind == "seq-long" {
		s.ops = longOps()
	}
	w := seq.Replay(s, d.Path)
	return w != "", w
}

func init() {
	props.Register(&props.Prop{ID: "C01", Run: run, Replay: replay})
}
