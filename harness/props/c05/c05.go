// Package c05: hot-parameter QPS rules shape each parameter value independently.
//
// Engine B, four families of configurations, each explored breadth-first over all
// multi-value arrival histories in virtual time through the real api.Entry:
//
//	F1 reject mode: envelope inequalities per value + differential independence
//	F2 throttling mode: spacing / queueing bound per value + differential independence
//	F3 argument selection (index, negative index, key) and argument types
//	F4 capacity below the number of live values: per-request bounds only
//
// Independence is checked differentially without any expected value: every request for value
// v on the shared resource is mirrored on a private resource that carries the same rule and
// only ever sees v; the two decisions (and requested waits) must agree.
package c05

import (
	"encoding/json"
	"fmt"
	"strings"
	"time"

	sentinel "github.com/alibaba/sentinel-golang/api"
	"github.com/alibaba/sentinel-golang/core/base"
	"github.com/alibaba/sentinel-golang/core/hotspot"

	"verifharness/engine/seq"
	"verifharness/env"
	"verifharness/props"
	"verifharness/report"
)

type Config struct {
	Family     string `json:"family"`
	Throttle   bool   `json:"throttle"`
	T          int64  `json:"t"`
	Burst      int64  `json:"burst"`
	D          int64  `json:"d"`
	SpecA      int64  `json:"spec_a"` // -1 = no specific item for A
	MaxQ       int64  `json:"max_q"`
	Capacity   int64  `json:"capacity"`
	Index      int    `json:"index"`
	ByKey      bool   `json:"by_key"`
	SleepAdv   bool   `json:"sleep_adv"`
	ValueKinds bool   `json:"value_kinds"` // F3: values of several Go types
	// Prefix: the exploration does not start from the initial state but after this many rounds of
	// sparse traffic on value A (one token, then a pause just over one duration)
	Prefix int `json:"sparse_prefix_rounds,omitempty"`
	// Front (F6): another rule of the same resource in front of the metered one. 1 = a rule whose selected
	// argument (index 9) no request carries, with threshold 0: it applies to nothing and must not hide the rule
	// behind it (an attachment key would not do: a missing key falls back to the argument index); 2 = a
	// permissive rule on the same argument
	Front int `json:"front_rule,omitempty"`
	// ReloadSpecA >= 0 (family F7): the alphabet has a reload that changes ONLY the specific threshold of value A
	// (toggling between SpecA and ReloadSpecA); afterwards the rule in force is the new one, with fresh state
	ReloadSpecA int64 `json:"reload_spec_a,omitempty"`
	HasReload   bool  `json:"has_reload,omitempty"`
	// ReloadCapacity > 0 (family F8): the reload changes ONLY ParamsMaxCapacity (toggling between Capacity and
	// ReloadCapacity): the caches are sized by it, so the rule in force afterwards is a new one with fresh state
	ReloadCapacity int64 `json:"reload_capacity,omitempty"`
	// Exact (negative index only): requests carry exactly |index| arguments, so the index selects the FIRST one
	Exact bool `json:"exactly_index_many_args,omitempty"`
}

func (c Config) String() string { b, _ := json.Marshal(c); return string(b) }

func (s *scen) threshold(v string) int64 {
	if v == "A" && s.specA >= 0 {
		return s.specA
	}
	return s.cfg.T
}

type opDef struct {
	reload bool
	req    bool
	val    int // index into values; -1 = request without the selected argument
	batch  uint32
	tick   int64
}

type pt struct{ X, Y int }

// values used as hotspot arguments; F3 uses all of them, the other families the first three
var values = []interface{}{"A", "B", "C", 1, "1", true, 1.5, pt{1, 2}, pt{2, 1}}

func vname(i int) string {
	if i < 0 {
		return "<none>"
	}
	return fmt.Sprintf("%T(%v)", values[i], values[i])
}

func (o opDef) String() string {
	if o.reload {
		return "reload(specific threshold of A toggled)"
	}
	if o.req {
		return fmt.Sprintf("req(%s,%d)", vname(o.val), o.batch)
	}
	return fmt.Sprintf("tick(%d)", o.tick)
}

const T0 = int64(1700000000000)

type admission struct {
	t   int64 // pass time (arrival + wait) in ms
	tok int64
}

type scen struct {
	lru       []int // F4: reference LRU order of the values (most recent first)
	prefixBad string
	cfg       Config
	ops       []opDef
	now       int64
	adm       map[int][]admission // per value on the shared resource
	firstSeen map[int]int64
	lastReq   map[int]int64
	sleeps    []time.Duration
	specA     int64 // specific threshold of A in force
	capacity  int64 // ParamsMaxCapacity in force
	envA      int64 // the largest specific threshold of A that has been in force
}

// lruFamily: configurations whose capacity can lie below the number of values in play
func (c Config) lruFamily() bool { return c.Family == "F4" || c.Family == "F8" }

func (s *scen) Name() string        { return s.cfg.String() }
func (s *scen) NumOps() int         { return len(s.ops) }
func (s *scen) OpName(i int) string { return s.ops[i].String() }
func (s *scen) Enabled(i int) bool  { return true }

func (s *scen) mkRule(res string) *hotspot.Rule {
	r := &hotspot.Rule{Resource: res, MetricType: hotspot.QPS, ControlBehavior: hotspot.Reject, ParamIndex: s.cfg.Index,
		Threshold: s.cfg.T, BurstCount: s.cfg.Burst, DurationInSec: s.cfg.D, ParamsMaxCapacity: s.capacity}
	if s.cfg.Throttle {
		r.ControlBehavior = hotspot.Throttling
		r.MaxQueueingTimeMs = s.cfg.MaxQ
		r.BurstCount = 0
	}
	if s.cfg.ByKey {
		r.ParamKey = "k"
		r.ParamIndex = 0
	}
	if s.specA >= 0 {
		r.SpecificItems = map[interface{}]int64{"A": s.specA}
	}
	return r
}

func (s *scen) Reset() {
	env.ResetAll(env.DefaultGeometry, T0)
	s.now = T0
	env.Clock.SleepAdvances = s.cfg.SleepAdv
	s.sleeps = s.sleeps[:0]
	env.Clock.OnSleep = func(d time.Duration) { s.sleeps = append(s.sleeps, d) }
	s.adm = map[int][]admission{}
	s.firstSeen = map[int]int64{}
	s.lastReq = map[int]int64{}
	s.lru = s.lru[:0]
	s.specA, s.envA = s.cfg.SpecA, s.cfg.SpecA
	s.capacity = s.cfg.Capacity
	s.loadRules()
	s.prefixBad = ""
	if s.cfg.Prefix > 0 {
		reqA, pause := -1, -1
		for i, o := range s.ops {
			if o.req && o.val == 0 && o.batch == 1 && reqA < 0 {
				reqA = i
			}
			if !o.req && o.tick == s.cfg.D*1000+1 {
				pause = i
			}
		}
		if reqA < 0 || pause < 0 {
			panic("harness: prefix operations not in the alphabet")
		}
		for k := 0; k < s.cfg.Prefix && s.prefixBad == ""; k++ {
			if _, v := s.apply(reqA); v != "" {
				s.prefixBad = fmt.Sprintf("in sparse round %d of the prefix: %s", k+1, v)
			}
			s.apply(pause)
		}
	}
}

// loadRules (re)loads the rule list for the specific threshold in force.
func (s *scen) loadRules() {
	var rules []*hotspot.Rule
	add := func(res string) {
		switch s.cfg.Front {
		case 1:
			rules = append(rules, &hotspot.Rule{ID: "front", Resource: res, MetricType: hotspot.QPS, ControlBehavior: hotspot.Reject, ParamIndex: 9, Threshold: 0, DurationInSec: 1})
		case 2:
			f := s.mkRule(res)
			f.ID, f.ControlBehavior, f.Threshold, f.BurstCount, f.SpecificItems = "front", hotspot.Reject, 1000000000, 0, nil
			rules = append(rules, f)
		}
		rules = append(rules, s.mkRule(res))
	}
	add("shared")
	for i := range values {
		add(fmt.Sprintf("only%d", i))
	}
	if _, err := hotspot.LoadRules(rules); err != nil {
		panic(err)
	}
	if len(hotspot.GetRules()) != len(rules) {
		panic("harness: hotspot rule not accepted: " + s.cfg.String())
	}
}

// opts builds the entry options that put value v where the rule selects it.
func (s *scen) opts(v int, batch uint32) []sentinel.EntryOption {
	o := []sentinel.EntryOption{}
	if batch != 1 { // a one-token request names no batch count: the default of the pooled options is checked too
		o = append(o, sentinel.WithBatchCount(batch))
	}
	if v < 0 {
		// a request without the selected argument
		switch {
		case s.cfg.ByKey:
			o = append(o, sentinel.WithAttachment("other", "x"))
		case s.cfg.Index == 0 || s.cfg.Index == -1:
			// no arguments at all
		case s.cfg.Index > 0:
			o = append(o, sentinel.WithArgs("z")) // too short for the index
		default:
			o = append(o, sentinel.WithArgs("z")) // too short for the negative index
		}
		return o
	}
	val := values[v]
	switch {
	case s.cfg.ByKey:
		o = append(o, sentinel.WithAttachment("k", val), sentinel.WithArgs("decoy"))
	case s.cfg.Index >= 0:
		args := make([]interface{}, s.cfg.Index+1)
		for i := range args {
			args[i] = "decoy"
		}
		args[s.cfg.Index] = val
		o = append(o, sentinel.WithArgs(args...))
	default:
		n := -s.cfg.Index
		if s.cfg.Exact {
			args := make([]interface{}, n)
			for i := range args {
				args[i] = "decoy"
			}
			args[0] = val
			o = append(o, sentinel.WithArgs(args...))
			return o
		}
		args := make([]interface{}, n+1)
		for i := range args {
			args[i] = "decoy"
		}
		args[len(args)-n] = val
		o = append(o, sentinel.WithArgs(args...))
	}
	return o
}

type answer struct {
	pass bool
	wait int64 // ms
	typ  base.BlockType
}

func (s *scen) call(res string, v int, batch uint32) answer {
	n := len(s.sleeps)
	e, blk := sentinel.Entry(res, s.opts(v, batch)...)
	var w int64
	for _, d := range s.sleeps[n:] {
		w += d.Milliseconds()
	}
	if blk != nil {
		return answer{false, w, blk.BlockType()}
	}
	e.Exit()
	return answer{true, w, 0}
}

func (s *scen) Apply(i int) (string, string) {
	if s.prefixBad != "" {
		return "", s.prefixBad
	}
	return s.apply(i)
}

func (s *scen) apply(i int) (string, string) {
	o := s.ops[i]
	if o.reload && s.cfg.ReloadCapacity > 0 {
		if s.capacity == s.cfg.Capacity {
			s.capacity = s.cfg.ReloadCapacity
		} else {
			s.capacity = s.cfg.Capacity
		}
		s.loadRules()
		// caches of another size are other caches: nothing of the replaced rule's per-value state carries over
		s.adm = map[int][]admission{}
		s.firstSeen = map[int]int64{}
		s.lastReq = map[int]int64{}
		s.lru = s.lru[:0]
		return "", ""
	}
	if o.reload {
		if s.specA == s.cfg.SpecA {
			s.specA = s.cfg.ReloadSpecA
		} else {
			s.specA = s.cfg.SpecA
		}
		s.loadRules()
		// Whether the per-value counters of the replaced rule carry over is not this property's business (they
		// do: C14 "a modified rule whose statistic parameters are unchanged keeps its accumulated statistics"), so
		// the history is kept and the upper envelopes are judged against the most generous threshold that was
		// in force; what MUST be admitted is judged against the threshold in force now.
		if s.specA > s.envA {
			s.envA = s.specA
		}
		return "", ""
	}
	if !o.req {
		s.now += o.tick
		env.Clock.SetMs(s.now)
		return "", ""
	}
	arrival := s.now
	a := s.call("shared", o.val, o.batch)
	after := env.Clock.Ms()
	obs := fmt.Sprintf("%v=%v+%d", o, a.pass, a.wait)
	if !a.pass && a.typ != base.BlockTypeHotSpotParamFlow {
		return obs, fmt.Sprintf("%v blocked with type %v", o, a.typ)
	}
	if o.val < 0 {
		if !a.pass {
			return obs, fmt.Sprintf("t=+%d %v: a request without the selected argument was limited", arrival-T0, o)
		}
		return obs, ""
	}
	// differential independence: the private resource has only ever seen this value
	if !s.cfg.lruFamily() {
		env.Clock.SetMs(arrival) // same arrival time for the mirror call
		b := s.call(fmt.Sprintf("only%d", o.val), o.val, o.batch)
		env.Clock.SetMs(after)
		if a.pass != b.pass || a.wait != b.wait {
			return obs, fmt.Sprintf("t=+%d %v: decision (admitted=%v, wait=%dms) differs from the decision for the same value without the other values' traffic (admitted=%v, wait=%dms)",
				arrival-T0, o, a.pass, a.wait, b.pass, b.wait)
		}
	}
	s.now = after
	vn := "B"
	if values[o.val] == "A" {
		vn = "A"
	}
	T := s.threshold(vn)
	D := s.cfg.D * 1000
	if _, ok := s.firstSeen[o.val]; !ok {
		s.firstSeen[o.val] = arrival
	}
	idleFor := int64(-1)
	if lr, ok := s.lastReq[o.val]; ok {
		idleFor = arrival - lr
	}
	s.lastReq[o.val] = arrival
	if s.cfg.lruFamily() {
		// More live values than the configured capacity: the per-value state lives in a least-
		// recently-used cache, so a value keeps its state exactly as long as fewer than `capacity`
		// OTHER values were used since its last request. The reference tracks that order; a value
		// that fell out starts afresh (its history is forgotten), everything else is judged as usual.
		pos := -1
		for i, x := range s.lru {
			if x == o.val {
				pos = i
			}
		}
		if pos >= 0 {
			s.lru = append(s.lru[:pos], s.lru[pos+1:]...)
		} else {
			delete(s.adm, o.val)
			s.firstSeen[o.val] = arrival
			idleFor = -1
		}
		s.lru = append([]int{o.val}, s.lru...)
		if int64(len(s.lru)) > s.capacity {
			s.lru = s.lru[:s.capacity]
		}
		if a.pass && !s.cfg.Throttle && int64(o.batch) > T+s.cfg.Burst {
			return obs, fmt.Sprintf("%v admitted although the batch exceeds threshold+burst", o)
		}
	}
	if s.cfg.Throttle {
		if a.pass {
			if a.wait >= s.cfg.MaxQ && a.wait > 0 {
				return obs, fmt.Sprintf("t=+%d %v asked to wait %d ms, the maximum queueing time is %d ms", arrival-T0, o, a.wait, s.cfg.MaxQ)
			}
			pass := arrival + a.wait
			if prev := s.adm[o.val]; len(prev) > 0 {
				last := prev[len(prev)-1].t
				// spacing >= batch*D/T  <=>  (pass-last)*T >= batch*D (ms, exact integers)
				if (pass-last)*T < int64(o.batch)*D {
					return obs, fmt.Sprintf("t=+%d %v passes at +%d, %d ms after the previous pass time of that value, required spacing %d*%d/%d ms",
						arrival-T0, o, pass-T0, pass-last, o.batch, D, T)
				}
			}
			if T <= 0 {
				return obs, fmt.Sprintf("%v admitted although the threshold for that value is %d", o, T)
			}
			s.adm[o.val] = append(s.adm[o.val], admission{pass, int64(o.batch)})
		}
		return obs, ""
	}
	// reject mode envelopes
	if a.wait != 0 {
		return obs, fmt.Sprintf("%v in reject mode was asked to sleep", o)
	}
	if !a.pass {
		if idleFor > D && int64(o.batch) <= T {
			return obs, fmt.Sprintf("t=+%d %v rejected although the value had been idle for %d ms (> duration %d ms) and the batch is within its threshold %d", arrival-T0, o, idleFor, D, T)
		}
		if idleFor < 0 && int64(o.batch) <= T {
			return obs, fmt.Sprintf("t=+%d %v: first request for the value rejected although the batch is within its threshold %d", arrival-T0, o, T)
		}
		return obs, ""
	}
	s.adm[o.val] = append(s.adm[o.val], admission{arrival, int64(o.batch)})
	var total int64
	for _, x := range s.adm[o.val] {
		total += x.tok
	}
	if T <= 0 {
		return obs, fmt.Sprintf("%v admitted although the threshold for that value is %d", o, T)
	}
	if vn == "A" && s.envA > T {
		T = s.envA // upper envelopes only from here on
	}
	max := T + s.cfg.Burst
	// (r1) total <= max + T*(t-firstSeen)/D
	if total*D > max*D+T*(arrival-s.firstSeen[o.val]) {
		return obs, fmt.Sprintf("t=+%d %v: %d tokens admitted for the value since it was first seen %d ms ago, more than (threshold+burst)=%d plus threshold=%d per %d ms",
			arrival-T0, o, total, arrival-s.firstSeen[o.val], max, T, D)
	}
	// (r2) at most 2*(T+burst) inside any single duration
	for _, x := range s.adm[o.val] {
		var w int64
		for _, y := range s.adm[o.val] {
			if y.t >= x.t && y.t < x.t+D {
				w += y.tok
			}
		}
		if w > 2*max {
			return obs, fmt.Sprintf("t=+%d %v: %d tokens admitted for the value within one duration of %d ms starting at +%d, more than twice threshold+burst = %d", arrival-T0, o, w, D, x.t-T0, 2*max)
		}
	}
	return obs, ""
}

func (s *scen) Key() string {
	var b strings.Builder
	fmt.Fprintf(&b, "lru%v|spec%d,%d|cap%d|", s.lru, s.specA, s.envA, s.capacity)
	ress := []string{"shared"}
	for v := range values {
		if _, ok := s.firstSeen[v]; ok && !s.cfg.lruFamily() {
			ress = append(ress, fmt.Sprintf("only%d", v))
		}
	}
	for _, res := range ress {
		_, tok, tim := hotspot.VerifCounters(res, 0)
		for _, kv := range tok {
			fmt.Fprintf(&b, "%v=%d,", kv.K, kv.V)
		}
		b.WriteString("|")
		for _, kv := range tim {
			d := s.now - kv.V
			if d > 3*s.cfg.D*1000 {
				d = 3*s.cfg.D*1000 + 1
			}
			fmt.Fprintf(&b, "%v@%d,", kv.K, d)
		}
		b.WriteString("|")
	}
	D := s.cfg.D * 1000
	for v := range values {
		var tot int64
		for _, x := range s.adm[v] {
			tot += x.tok
			if x.t > s.now-D {
				fmt.Fprintf(&b, "%d:%d@%d,", v, x.tok, s.now-x.t)
			}
		}
		if fs, ok := s.firstSeen[v]; ok {
			// slack of envelope (r1), capped: once it is larger than any future burst it cannot matter
			slack := (s.cfg.T+s.cfg.Burst)*D + s.cfg.T*(s.now-fs) - tot*D
			if slack > 4*(s.cfg.T+s.cfg.Burst+5)*D {
				slack = 4 * (s.cfg.T + s.cfg.Burst + 5) * D
			}
			idle := s.now - s.lastReq[v]
			if idle > D {
				idle = D + 1
			}
			fmt.Fprintf(&b, "s%d/%d/i%d;", v, slack, idle)
		}
	}
	return b.String()
}

func mkOps(cfg Config) []opDef {
	var ops []opDef
	vals := []int{0, 1}
	if cfg.lruFamily() {
		vals = []int{0, 1, 2}
	}
	if cfg.ValueKinds {
		vals = []int{3, 4, 5, 6, 7, 8}
	}
	for _, v := range vals {
		ops = append(ops, opDef{req: true, val: v, batch: 1})
	}
	if !cfg.ValueKinds {
		ops = append(ops, opDef{req: true, val: 0, batch: 2}, opDef{req: true, val: -1, batch: 1})
	} else {
		ops = append(ops, opDef{req: true, val: -1, batch: 1})
	}
	ticks := []int64{1, 399, 500, 999, 1000, 1001, 2001}
	if cfg.ValueKinds {
		ticks = []int64{1, 1001}
	}
	for _, d := range ticks {
		ops = append(ops, opDef{tick: d})
	}
	if cfg.HasReload {
		ops = append(ops, opDef{reload: true})
	}
	return ops
}

func configs(quick bool) []Config {
	var out []Config
	// F1 reject
	for _, t := range []int64{0, 1, 2, 3} {
		for _, b := range []int64{0, 1, 2} {
			for _, d := range []int64{1, 2} {
				for _, sa := range []int64{-1, 0, 5} {
					if quick && (b == 1 && d == 2 || sa == 5 && t == 3) {
						continue
					}
					out = append(out, Config{Family: "F1", T: t, Burst: b, D: d, SpecA: sa})
				}
			}
		}
	}
	// F2 throttling
	for _, t := range []int64{1, 2, 3, 1500} {
		for _, d := range []int64{1, 2} {
			for _, mq := range []int64{0, 1, 500, 1000} {
				for _, sa := range []bool{false, true} {
					if sa && (quick || mq == 1) {
						continue
					}
					out = append(out, Config{Family: "F2", Throttle: true, T: t, D: d, MaxQ: mq, SpecA: -1, SleepAdv: sa})
				}
			}
		}
	}
	out = append(out, Config{Family: "F2", Throttle: true, T: 2, D: 1, MaxQ: 1000, SpecA: 0})
	// F3 argument selection and types
	for _, idx := range []int{0, 1, -1, -3, 5} {
		out = append(out, Config{Family: "F3", T: 1, D: 1, SpecA: -1, Index: idx})
		out = append(out, Config{Family: "F3", T: 1, D: 1, SpecA: -1, Index: idx, ValueKinds: true})
	}
	out = append(out, Config{Family: "F3", T: 1, D: 1, SpecA: -1, Index: -1, Exact: true}, Config{Family: "F3", T: 1, D: 1, SpecA: -1, Index: -3, Exact: true})
	out = append(out, Config{Family: "F3", T: 1, D: 1, SpecA: -1, ByKey: true}, Config{Family: "F3", T: 1, D: 1, SpecA: -1, ByKey: true, ValueKinds: true})
	// F5 reject, starting after sparse traffic (states the depth bound does not reach from the start)
	for _, t := range []int64{2, 3} {
		for _, pre := range []int{3, 6} {
			out = append(out, Config{Family: "F5", T: t, Burst: int64(pre % 2), D: 1, SpecA: -1, Prefix: pre})
		}
	}
	// F6 a second rule in front of the metered one
	for _, fr := range []int{1, 2} {
		out = append(out, Config{Family: "F6", T: 1, D: 1, SpecA: -1, Front: fr}, Config{Family: "F6", T: 2, Burst: 1, D: 1, SpecA: 0, Front: fr, Index: 1},
			Config{Family: "F6", Throttle: true, T: 2, D: 1, MaxQ: 500, SpecA: -1, Front: fr, ByKey: fr == 2})
	}
	// F7 a reload that changes only the specific threshold of A (lowered and raised)
	out = append(out, Config{Family: "F7", T: 1, Burst: 0, D: 1, SpecA: 3, ReloadSpecA: 1, HasReload: true},
		Config{Family: "F7", T: 2, Burst: 1, D: 1, SpecA: 1, ReloadSpecA: 4, HasReload: true},
		Config{Family: "F7", Throttle: true, T: 1, D: 1, MaxQ: 1000, SpecA: 4, ReloadSpecA: 2, HasReload: true})
	// F8 a reload that changes only the parameter capacity (raised from below the number of values, and lowered)
	out = append(out, Config{Family: "F8", T: 2, Burst: 0, D: 1, SpecA: -1, Capacity: 2, ReloadCapacity: 100, HasReload: true},
		Config{Family: "F8", Throttle: true, T: 2, D: 1, MaxQ: 500, SpecA: -1, Capacity: 100, ReloadCapacity: 1, HasReload: true})
	// F4 capacity below the number of values
	for _, capa := range []int64{1, 2} {
		out = append(out, Config{Family: "F4", T: 2, Burst: 1, D: 1, SpecA: -1, Capacity: capa})
		out = append(out, Config{Family: "F4", Throttle: true, T: 2, D: 1, MaxQ: 500, SpecA: -1, Capacity: capa})
	}
	return out
}

func signature(cfg Config, what string) string {
	mode := "reject"
	if cfg.Throttle {
		mode = "throttling"
	}
	switch {
	case strings.Contains(what, "required spacing"):
		return "C05:throttling:spacing-below-batch*duration/threshold"
	case strings.Contains(what, "asked to wait"):
		return "C05:throttling:wait-reaches-limit"
	case strings.Contains(what, "differs from the decision"):
		return "C05:" + mode + ":values-not-independent"
	case strings.Contains(what, "without the selected argument"):
		return "C05:request-without-argument-limited"
	case strings.Contains(what, "idle for"), strings.Contains(what, "first request"):
		return "C05:reject:idle-value-refused"
	case strings.Contains(what, "more than (threshold+burst)"):
		return "C05:reject:long-run-envelope"
	case strings.Contains(what, "more than twice"):
		return "C05:reject:burst-envelope"
	case strings.Contains(what, "admitted although"):
		return "C05:" + mode + ":zero-or-oversize-admitted"
	}
	return "C05:other"
}

type replayDoc struct {
	Cfg  Config   `json:"cfg"`
	Path []int    `json:"path"`
	Ops  []string `json:"ops"`
}

func run(c *props.Ctx) {
	depth := 6
	if !c.Quick() {
		depth = 8
	}
	c.R.Bounds["depth"] = depth
	cfgs := configs(c.Quick())
	c.R.Bounds["configs"] = len(cfgs)
	for i, cfg := range cfgs {
		if !c.Mine(i) {
			continue
		}
		if c.Expired() {
			c.R.Cap("time budget reached before all configurations were explored")
			break
		}
		cfg := cfg
		s := &scen{cfg: cfg, ops: mkOps(cfg)}
		d := depth
		if cfg.ValueKinds {
			d = depth - 2
		}
		res := seq.Explore(s, seq.Options{Depth: d, Deadline: c.Deadline, Classify: func(w string) string { return signature(cfg, w) }, MaxStates: 1500000})
		c.R.States += int64(res.States)
		c.R.Transitions += res.Transitions
		c.R.Evaluations += res.Transitions
		c.R.Traces += res.Transitions
		for o := range res.Obs {
			c.R.Outcome(fmt.Sprintf("%d|%s", i, o))
		}
		if res.CapHit != "" && res.CapHit != "violation limit" {
			c.R.Cap(res.CapHit)
		}
		if i%23 == 0 {
			c.R.Sample(map[string]interface{}{"config": cfg, "states": res.States, "transitions": res.Transitions, "depth": res.Depth, "path": res.SamplePath})
		}
		for _, v := range res.Violations {
			c.R.Violate(report.Violation{Signature: signature(cfg, v.What), What: v.What, Scenario: cfg.String() + " " + strings.Join(v.Ops, " "),
				Replay: replayDoc{Cfg: cfg, Path: v.Path, Ops: v.Ops}})
		}
	}
	if c.Shard == 0 {
		largeCapacity(c)
	}
}

// largeCapacity: "while the configured parameter capacity is not exceeded" also for a capacity above
// the package's default limit (20000): 20001 distinct values at one instant exhaust their single
// token each; the first value, used again, must still find its empty bucket. Directed, because no
// bounded history reaches that many values.
func largeCapacity(c *props.Ctx) {
	for _, throttle := range []bool{false, true} {
		env.ResetAll(env.DefaultGeometry, T0)
		const capa = 20001
		r := &hotspot.Rule{Resource: "big", MetricType: hotspot.QPS, ControlBehavior: hotspot.Reject, ParamIndex: 0, Threshold: 1, DurationInSec: 1, ParamsMaxCapacity: capa}
		if throttle {
			r.ControlBehavior, r.MaxQueueingTimeMs = hotspot.Throttling, 0
		}
		if _, err := hotspot.LoadRules([]*hotspot.Rule{r}); err != nil || len(hotspot.GetRules()) != 1 {
			c.R.HarnessError("large-capacity rule not accepted")
			return
		}
		blockedEarly := -1
		for v := 0; v < capa; v++ {
			e, blk := sentinel.Entry("big", sentinel.WithArgs(v))
			if blk != nil {
				blockedEarly = v
				break
			}
			e.Exit()
		}
		what := ""
		if blockedEarly >= 0 {
			what = fmt.Sprintf("capacity %d: the first request for value %d was rejected", capa, blockedEarly)
		} else if e, blk := sentinel.Entry("big", sentinel.WithArgs(0)); blk == nil {
			e.Exit()
			what = fmt.Sprintf("capacity %d (throttling=%v): after %d distinct values were used at one instant, a second request for the first value was admitted again (threshold 1 per second): its state was dropped although the configured capacity is not exceeded", capa, throttle, capa)
		}
		c.R.Evaluations += capa + 1
		c.R.Outcome(fmt.Sprintf("large-capacity|%v", throttle))
		if what != "" {
			c.R.Violate(report.Violation{Signature: "C05:state-dropped-below-configured-capacity", What: what, Scenario: "large capacity", Replay: map[string]interface{}{"kind": "large-capacity"}})
		}
	}
	c.R.Bounds["large_capacity_values"] = 20001
}

func replay(c *props.Ctx, raw json.RawMessage) (bool, string) {
	var d replayDoc
	if err := json.Unmarshal(raw, &d); err != nil {
		return false, err.Error()
	}
	s := &scen{cfg: d.Cfg, ops: mkOps(d.Cfg)}
	w := seq.Replay(s, d.Path)
	return w != "", w
}

func init() {
	props.Register(&props.Prop{ID: "C05", Run: run, Replay: replay})
}
