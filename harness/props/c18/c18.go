// Package c18: datasource payloads are applied faithfully or rejected, never half-applied.
//
// Engine B. For each of the five rule property handlers (flow, system, circuit breaker,
// hotspot, isolation) a BFS over all delivery sequences (to a depth bound) of payloads from an
// alphabet of valid arrays of 0-2 rules, arrays with null or wrongly typed elements, an
// object, null, the empty payload, plus "rules pre-loaded through the API"; in EVERY reached
// state EVERY proper prefix of a valid two-rule payload (truncated JSON) is also delivered as a
// one-step probe. Reference: ref/rules over the module's own IsValidRule; decodability is
// decided by encoding/json on the module's wire type. Plus the wire round trip of every
// catalogue rule, and (file.go) event sequences on the file datasource through a fake
// fsnotify watcher.
package c18

import (
	"encoding/json"
	"fmt"
	"hash/fnv"
	"reflect"
	"sort"
	"strconv"
	"strings"

	cb "github.com/alibaba/sentinel-golang/core/circuitbreaker"
	"github.com/alibaba/sentinel-golang/core/flow"
	"github.com/alibaba/sentinel-golang/core/hotspot"
	"github.com/alibaba/sentinel-golang/core/isolation"
	"github.com/alibaba/sentinel-golang/core/system"
	"github.com/alibaba/sentinel-golang/ext/datasource"

	"verifharness/engine/seq"
	"verifharness/env"
	"verifharness/props"
	"verifharness/report"
)

// module adapter
type mod struct {
	Name string
	// payloads
	P1, P2, P2b string // valid arrays with 1 / 2 / 2 (other) rules, in the module's wire format
	P1v         string // P1 with one inconspicuous field changed (same ids): still another rule list
	Mixed       string // [valid, null]
	NewHandler  func() datasource.PropertyHandler
	// Decode decides decodability with encoding/json on the wire type and returns the IDs of
	// the VALID rules of the list, in order
	Decode func(src []byte) (ids []string, ok bool)
	Get    func() []string // IDs in force (sorted)
	// Preload installs rule "pre" through the API
	Preload func()
	Clear   func()
}

func sorted(s []string) []string { sort.Strings(s); return s }

// lab identifies a rule by its id AND its complete content (Go syntax of the value: typed map keys, every
// field), so that "the payload's rules are in force" is about the rules, not their names.
func lab(id string, rule interface{}) string {
	h := fnv.New32a()
	fmt.Fprintf(h, "%#v", rule)
	return fmt.Sprintf("%s#%08x", id, h.Sum32())
}

func mods() []*mod {
	return []*mod{
		{
			Name:  "flow",
			P1:    `[{"id":"f1","resource":"a","threshold":5}]`,
			P2:    `[{"id":"f1","resource":"a","threshold":5},{"id":"f2","resource":"b","tokenCalculateStrategy":1,"threshold":20,"warmUpPeriodSec":3,"statIntervalInMs":2000}]`,
			P2b:   `[{"id":"f3","resource":"a","controlBehavior":1,"threshold":2,"maxQueueingTimeMs":300},{"id":"bad","resource":"a","threshold":-1}]`,
			Mixed: `[{"id":"f1","resource":"a","threshold":5},null]`,
			NewHandler: func() datasource.PropertyHandler {
				return datasource.NewFlowRulesHandler(datasource.FlowRuleJsonArrayParser)
			},
			Decode: func(src []byte) ([]string, bool) {
				var rs []*flow.Rule
				if json.Unmarshal(src, &rs) != nil {
					return nil, false
				}
				ids := []string{}
				for _, r := range rs {
					if flow.IsValidRule(r) == nil {
						ids = append(ids, r.ID)
					}
				}
				return ids, true
			},
			Get: func() []string {
				ids := []string{}
				for _, r := range flow.GetRules() {
					ids = append(ids, r.ID)
				}
				return sorted(ids)
			},
			Preload: func() { _, _ = flow.LoadRules([]*flow.Rule{{ID: "pre", Resource: "p", Threshold: 1}}) },
			Clear:   func() { _ = flow.ClearRules() },
		},
		{
			Name:  "system",
			P1:    `[{"id":"s1","metricType":3,"triggerCount":100,"strategy":-1}]`,
			P2:    `[{"id":"s1","metricType":3,"triggerCount":100,"strategy":-1},{"id":"s2","metricType":0,"triggerCount":8.5,"strategy":1}]`,
			P2b:   `[{"id":"s3","metricType":2,"triggerCount":50,"strategy":-1},{"id":"bad","metricType":4,"triggerCount":1.5,"strategy":-1}]`,
			Mixed: `[{"id":"s1","metricType":3,"triggerCount":100,"strategy":-1},null]`,
			NewHandler: func() datasource.PropertyHandler {
				return datasource.NewSystemRulesHandler(datasource.SystemRuleJsonArrayParser)
			},
			Decode: func(src []byte) ([]string, bool) {
				var rs []*system.Rule
				if json.Unmarshal(src, &rs) != nil {
					return nil, false
				}
				ids := []string{}
				for _, r := range rs {
					if system.IsValidSystemRule(r) == nil {
						ids = append(ids, r.ID)
					}
				}
				return ids, true
			},
			Get: func() []string {
				ids := []string{}
				for _, r := range system.GetRules() {
					ids = append(ids, r.ID)
				}
				return sorted(ids)
			},
			Preload: func() {
				_, _ = system.LoadRules([]*system.Rule{{ID: "pre", MetricType: system.AvgRT, TriggerCount: 99999, Strategy: system.NoAdaptive}})
			},
			Clear: func() { _ = system.ClearRules() },
		},
		{
			Name:  "circuitbreaker",
			P1:    `[{"id":"c1","resource":"a","strategy":2,"retryTimeoutMs":1000,"minRequestAmount":5,"statIntervalMs":1000,"threshold":3}]`,
			P2:    `[{"id":"c1","resource":"a","strategy":2,"retryTimeoutMs":1000,"minRequestAmount":5,"statIntervalMs":1000,"threshold":3},{"id":"c2","resource":"b","strategy":0,"retryTimeoutMs":500,"minRequestAmount":2,"statIntervalMs":2000,"statSlidingWindowBucketCount":2,"maxAllowedRtMs":40,"threshold":0.5,"probeNum":2}]`,
			P1v:   `[{"id":"c1","resource":"a","strategy":2,"retryTimeoutMs":1000,"minRequestAmount":5,"statIntervalMs":1000,"threshold":3,"probeNum":5}]`,
			P2b:   `[{"id":"c3","resource":"a","strategy":1,"retryTimeoutMs":1000,"statIntervalMs":1000,"threshold":0.3},{"id":"bad","resource":"a","strategy":1,"retryTimeoutMs":0,"statIntervalMs":1000,"threshold":0.3}]`,
			Mixed: `[{"id":"c1","resource":"a","strategy":2,"retryTimeoutMs":1000,"minRequestAmount":5,"statIntervalMs":1000,"threshold":3},null]`,
			NewHandler: func() datasource.PropertyHandler {
				return datasource.NewCircuitBreakerRulesHandler(datasource.CircuitBreakerRuleJsonArrayParser)
			},
			Decode: func(src []byte) ([]string, bool) {
				var rs []*cb.Rule
				if json.Unmarshal(src, &rs) != nil {
					return nil, false
				}
				ids := []string{}
				for _, r := range rs {
					if cb.IsValidRule(r) == nil {
						ids = append(ids, lab(r.Id, *r))
					}
				}
				return ids, true
			},
			Get: func() []string {
				ids := []string{}
				for _, r := range cb.GetRules() {
					ids = append(ids, lab(r.Id, r))
				}
				return sorted(ids)
			},
			Preload: func() {
				_, _ = cb.LoadRules([]*cb.Rule{{Id: "pre", Resource: "p", Strategy: cb.ErrorCount, RetryTimeoutMs: 10, StatIntervalMs: 1000, Threshold: 5}})
			},
			Clear: func() { _ = cb.ClearRules() },
		},
		{
			Name:  "hotspot",
			P1:    `[{"id":"h1","resource":"a","metricType":1,"controlBehavior":0,"paramIndex":0,"threshold":5,"burstCount":1,"durationInSec":1,"specificItems":[{"valKind":1,"valStr":"vip","threshold":50},{"valKind":0,"valStr":"7","threshold":9}]}]`,
			P2:    `[{"id":"h1","resource":"a","metricType":1,"controlBehavior":0,"paramIndex":0,"threshold":5,"burstCount":1,"durationInSec":1,"specificItems":[{"valKind":1,"valStr":"vip","threshold":50},{"valKind":0,"valStr":"7","threshold":9}]},{"id":"h2","resource":"b","metricType":0,"paramIndex":-1,"threshold":2,"specificItems":[{"valKind":2,"valStr":"true","threshold":3},{"valKind":3,"valStr":"1.5","threshold":4}]}]`,
			P1v:   `[{"id":"h1","resource":"a","metricType":1,"controlBehavior":0,"paramIndex":0,"threshold":5,"burstCount":1,"durationInSec":1,"specificItems":[{"valKind":1,"valStr":"vip","threshold":50},{"valKind":1,"valStr":"7","threshold":9}]}]`,
			P2b:   `[{"id":"h3","resource":"a","metricType":1,"controlBehavior":1,"paramIndex":1,"threshold":5,"maxQueueingTimeMs":20,"durationInSec":2},{"id":"bad","resource":"a","metricType":1,"threshold":5,"durationInSec":0}]`,
			Mixed: `[{"id":"h1","resource":"a","metricType":0,"threshold":5},null]`,
			NewHandler: func() datasource.PropertyHandler {
				return datasource.NewHotSpotParamRulesHandler(datasource.HotSpotParamRuleJsonArrayParser)
			},
			Decode: func(src []byte) ([]string, bool) {
				var rs []*datasource.HotspotRule
				if json.Unmarshal(src, &rs) != nil {
					return nil, false
				}
				ids := []string{}
				for _, w := range rs {
					if w == nil {
						continue
					}
					r := &hotspot.Rule{ID: w.ID, Resource: w.Resource, MetricType: w.MetricType, ControlBehavior: w.ControlBehavior, ParamIndex: w.ParamIndex,
						Threshold: w.Threshold, MaxQueueingTimeMs: w.MaxQueueingTimeMs, BurstCount: w.BurstCount, DurationInSec: w.DurationInSec, ParamsMaxCapacity: w.ParamsMaxCapacity}
					if len(w.SpecificItems) > 0 {
						r.SpecificItems = map[interface{}]int64{}
						for _, it := range w.SpecificItems {
							switch it.ValKind {
							case datasource.KindInt:
								if v, err := strconv.Atoi(it.ValStr); err == nil {
									r.SpecificItems[v] = it.Threshold
								}
							case datasource.KindString:
								r.SpecificItems[it.ValStr] = it.Threshold
							case datasource.KindBool:
								if v, err := strconv.ParseBool(it.ValStr); err == nil {
									r.SpecificItems[v] = it.Threshold
								}
							case datasource.KindFloat64:
								if v, err := strconv.ParseFloat(it.ValStr, 64); err == nil {
									r.SpecificItems[v] = it.Threshold
								}
							}
						}
					}
					if hotspot.IsValidRule(r) == nil {
						ids = append(ids, lab(r.ID, *r))
					}
				}
				return ids, true
			},
			Get: func() []string {
				ids := []string{}
				for _, r := range hotspot.GetRules() {
					if len(r.SpecificItems) == 0 {
						r.SpecificItems = nil
					}
					ids = append(ids, lab(r.ID, r))
				}
				return sorted(ids)
			},
			Preload: func() {
				_, _ = hotspot.LoadRules([]*hotspot.Rule{{ID: "pre", Resource: "p", MetricType: hotspot.Concurrency, Threshold: 5}})
			},
			Clear: func() { _ = hotspot.ClearRules() },
		},
		{
			Name:  "isolation",
			P1:    `[{"id":"i1","resource":"a","metricType":0,"threshold":5}]`,
			P2:    `[{"id":"i1","resource":"a","metricType":0,"threshold":5},{"id":"i2","resource":"b","metricType":0,"threshold":1}]`,
			P2b:   `[{"id":"i3","resource":"a","metricType":0,"threshold":7},{"id":"bad","resource":"a","metricType":0,"threshold":0}]`,
			Mixed: `[{"id":"i1","resource":"a","metricType":0,"threshold":5},null]`,
			NewHandler: func() datasource.PropertyHandler {
				return datasource.NewIsolationRulesHandler(datasource.IsolationRuleJsonArrayParser)
			},
			Decode: func(src []byte) ([]string, bool) {
				var rs []*isolation.Rule
				if json.Unmarshal(src, &rs) != nil {
					return nil, false
				}
				ids := []string{}
				for _, r := range rs {
					if isolation.IsValidRule(r) == nil {
						ids = append(ids, r.ID)
					}
				}
				return ids, true
			},
			Get: func() []string {
				ids := []string{}
				for _, r := range isolation.GetRules() {
					ids = append(ids, r.ID)
				}
				return sorted(ids)
			},
			Preload: func() {
				_, _ = isolation.LoadRules([]*isolation.Rule{{ID: "pre", Resource: "p", MetricType: isolation.Concurrency, Threshold: 5}})
			},
			Clear: func() { _ = isolation.ClearRules() },
		},
	}
}

type scen struct {
	m                    *mod
	payloads             []string // delivery alphabet; "" = empty payload; last op index = preload
	h                    datasource.PropertyHandler
	inForce              []string // reference: IDs in force (sorted)
	lastOK               string   // last payload that was applied (or "\x00" none)
	hasLast              bool
	delivered, preloaded bool
	prefixes             []string
}

func (s *scen) Name() string { return s.m.Name }
func (s *scen) NumOps() int  { return len(s.payloads) + 1 }
func (s *scen) OpName(i int) string {
	if i == len(s.payloads) {
		return "preload-through-API"
	}
	p := s.payloads[i]
	if len(p) > 46 {
		p = p[:43] + "..."
	}
	return fmt.Sprintf("deliver(%q)", p)
}

// The API preload is only offered before the first delivery: once the handler has applied a
// payload, changing the rules behind its back and re-delivering that payload puts "identical
// re-delivery is a no-op" and "the payload's rules are in force" in conflict by construction.
func (s *scen) Enabled(i int) bool { return i != len(s.payloads) || (!s.delivered && !s.preloaded) }

func (s *scen) Reset() {
	env.ResetAll(env.DefaultGeometry, 1700000000000)
	s.m.Clear()
	s.h = s.m.NewHandler()
	s.inForce = []string{}
	s.hasLast = false
	s.delivered, s.preloaded = false, false
}

// deliver hands one payload to the handler and compares with the reference.
func (s *scen) deliver(p string, probe bool) (obs string, viol string) {
	before := append([]string(nil), s.inForce...)
	var err error
	func() {
		defer func() {
			if r := recover(); r != nil {
				viol = fmt.Sprintf("Handle(%q) panicked out to the datasource: %v", p, r)
			}
		}()
		err = s.h.Handle([]byte(p))
	}()
	if viol != "" {
		return "", viol
	}
	got := s.m.Get()
	short := p
	if len(short) > 60 {
		short = short[:57] + "..."
	}
	switch {
	case p == "":
		// an empty payload clears the rules
		if err != nil {
			return "", fmt.Sprintf("empty payload returned an error: %v", err)
		}
		if len(got) != 0 {
			return "", fmt.Sprintf("after the empty payload the rules %v are still in force (previous delivery: %q)", got, s.lastOK)
		}
		s.inForce = []string{}
		obs = "cleared"
	default:
		ids, ok := s.m.Decode([]byte(p))
		if !ok {
			if err == nil {
				return "", fmt.Sprintf("undecodable payload %q was accepted without an error", short)
			}
			if fmt.Sprint(got) != fmt.Sprint(before) {
				return "", fmt.Sprintf("undecodable payload %q changed the rules in force from %v to %v", short, before, got)
			}
			// the same bytes once more (a datasource re-reads an unchanged file): rejected again. The reference state
			// does not move on a rejection, so the search would not look behind it by itself
			var err2 error
			func() {
				defer func() {
					if r := recover(); r != nil {
						viol = fmt.Sprintf("Handle(%q) panicked out to the datasource on the second delivery: %v", p, r)
					}
				}()
				err2 = s.h.Handle([]byte(p))
			}()
			if viol != "" {
				return "", viol
			}
			if err2 == nil {
				return "", fmt.Sprintf("undecodable payload %q was accepted without an error when delivered a second time", short)
			}
			if got2 := s.m.Get(); fmt.Sprint(got2) != fmt.Sprint(before) {
				return "", fmt.Sprintf("undecodable payload %q changed the rules in force from %v to %v when delivered a second time", short, before, got2)
			}
			return "rejected", ""
		}
		if err != nil {
			return "", fmt.Sprintf("decodable payload %q returned an error: %v", short, err)
		}
		want := sorted(append([]string(nil), ids...))
		if fmt.Sprint(got) != fmt.Sprint(want) {
			return "", fmt.Sprintf("after payload %q the rules in force are %v, the valid rules of the payload are %v (before: %v)", short, got, want, before)
		}
		s.inForce = want
		obs = fmt.Sprintf("applied%v", want)
	}
	if !probe {
		s.lastOK, s.hasLast = p, true
	}
	return obs, ""
}

func (s *scen) Apply(i int) (string, string) {
	if i == len(s.payloads) {
		s.m.Preload()
		s.preloaded = true
		// whole-set API load replaces everything
		s.inForce = s.m.Get() // labels carry a content hash; the preload is the harness's own rule "pre"
		if got := s.inForce; len(got) != 1 || !strings.HasPrefix(got[0], "pre") {
			return "", fmt.Sprintf("API preload: rules in force %v", got)
		}
		return "preloaded", ""
	}
	s.delivered = true
	return s.deliver(s.payloads[i], false)
}

// Final: every truncated payload as a one-step probe, then re-delivery of the last payload.
func (s *scen) Final() (string, string) {
	for _, p := range s.prefixes {
		before := append([]string(nil), s.inForce...)
		if _, v := s.deliver(p, true); v != "" {
			return "", "probe: " + v
		}
		// restore the state for the next probe if the prefix happened to be decodable (e.g. "[]")
		if fmt.Sprint(s.inForce) != fmt.Sprint(before) {
			return "", "" // state moved: stop probing here (the BFS covers such payloads as operations)
		}
	}
	return "", ""
}

func (s *scen) Key() string {
	return fmt.Sprintf("%v|%v|%q|%v%v", s.inForce, s.hasLast, s.lastOK, s.delivered, s.preloaded)
}

// extensions: a complete payload followed by bytes that make the whole text undecodable (a decoder
// that stops after the first value would accept and half-apply them)
func extensions(ps ...string) []string {
	var out []string
	for _, p := range ps {
		for _, suf := range []string{" x", "]", `":0,"threshold":7}]`, "[]", ",", "\x00", "}"} {
			out = append(out, p+suf)
		}
	}
	return out
}

func properPrefixes(p string) []string {
	var out []string
	for i := 1; i < len(p); i++ {
		out = append(out, p[:i])
	}
	return out
}

func signature(mod, what string) string {
	switch {
	case strings.Contains(what, "panicked"):
		return "C18:" + mod + ":handler-panics"
	case strings.Contains(what, "after the empty payload"):
		return "C18:" + mod + ":empty-payload-does-not-clear"
	case strings.Contains(what, "undecodable payload") && strings.Contains(what, "accepted"):
		return "C18:" + mod + ":undecodable-accepted"
	case strings.Contains(what, "undecodable payload"):
		return "C18:" + mod + ":undecodable-changes-rules"
	case strings.Contains(what, "null]") && strings.Contains(what, "rules in force"):
		return "C18:" + mod + ":null-element-not-applied"
	case strings.Contains(what, "the rules in force are"):
		return "C18:" + mod + ":payload-not-applied-faithfully"
	case strings.Contains(what, "returned an error"):
		return "C18:" + mod + ":decodable-rejected"
	case strings.Contains(what, "round trip"):
		return "C18:" + mod + ":wire-round-trip"
	}
	return "C18:" + mod + ":other"
}

type replayDoc struct {
	Module string   `json:"module"`
	Path   []int    `json:"path"`
	Ops    []string `json:"ops"`
}

func mkScen(m *mod) *scen {
	ps := []string{m.P1, m.P2, m.P2b, "[]", "", "[null]", m.Mixed, "[1]", `["x"]`, "{}", "null", `[{"resource":5}]`}
	if m.P1v != "" {
		ps = append(ps, m.P1v)
	}
	return &scen{m: m,
		payloads: ps,
		// blank but non-empty payloads (a file holding only a line break) are not JSON: rejected, rules kept
		prefixes: append(append([]string{"\n", " ", "\t\r\n"}, properPrefixes(m.P2)...), extensions(m.P1, m.P2, "[]")...)}
}

func run(c *props.Ctx) {
	depth := 3
	if !c.Quick() {
		depth = 4
	}
	c.R.Bounds["delivery_depth"] = depth
	ms := mods()
	per := c.NShards / len(ms)
	if per < 1 {
		per = 1
	}
	for mi, m := range ms {
		sub, nsub := 0, 1
		if c.NShards > 1 {
			if c.Shard/per != mi {
				continue
			}
			sub, nsub = c.Shard%per, per
		}
		s := mkScen(m)
		name := m.Name
		res := seq.Explore(s, seq.Options{Depth: depth, Deadline: c.Deadline, Classify: func(w string) string { return signature(name, w) }, Shard: sub, NShards: nsub})
		c.R.States += int64(res.States)
		c.R.Transitions += res.Transitions
		c.R.Evaluations += res.Transitions * int64(1+len(s.prefixes))
		c.R.Traces += res.Transitions
		for o := range res.Obs {
			c.R.Outcome(m.Name + "|" + o)
		}
		if res.CapHit != "" && res.CapHit != "violation limit" {
			c.R.Cap(m.Name + ": " + res.CapHit)
		}
		c.R.Sample(map[string]interface{}{"module": m.Name, "states": res.States, "transitions": res.Transitions, "truncated_payload_probes_per_state": len(s.prefixes), "path": res.SamplePath})
		for _, v := range res.Violations {
			c.R.Violate(report.Violation{Signature: signature(m.Name, v.What), What: v.What, Scenario: m.Name + ": " + strings.Join(v.Ops, " "),
				Replay: replayDoc{Module: m.Name, Path: v.Path, Ops: v.Ops}})
		}
		if sub == 0 {
			roundTrip(c, m)
		}
	}
	if c.Shard == c.NShards-1 || c.NShards <= 1 {
		fileDatasource(c)
		panickingCallbacks(c)
	}
}

// golden is the documented wire text of each module (field names as published at the pinned commit):
// the same rule lists as in roundTrip, written out literally, so that a renamed or re-typed wire field
// shows even though encoding and decoding stay consistent with each other.
var golden = map[string]string{
	"flow":           `[{"id":"1","resource":"r","tokenCalculateStrategy":1,"controlBehavior":1,"threshold":12.5,"relationStrategy":1,"refResource":"q","maxQueueingTimeMs":7,"warmUpPeriodSec":3,"warmUpColdFactor":4,"statIntervalInMs":700,"lowMemUsageThreshold":0,"highMemUsageThreshold":0,"memLowWaterMarkBytes":0,"memHighWaterMarkBytes":0},{"id":"2","resource":"m","tokenCalculateStrategy":2,"controlBehavior":0,"threshold":1,"relationStrategy":0,"refResource":"","maxQueueingTimeMs":0,"warmUpPeriodSec":0,"warmUpColdFactor":0,"statIntervalInMs":0,"lowMemUsageThreshold":1000,"highMemUsageThreshold":10,"memLowWaterMarkBytes":1048576,"memHighWaterMarkBytes":1099511627776}]`,
	"system":         `[{"id":"1","metricType":4,"triggerCount":0.75,"strategy":1},{"id":"2","metricType":0,"triggerCount":3,"strategy":-1}]`,
	"circuitbreaker": `[{"id":"1","resource":"r","strategy":0,"retryTimeoutMs":3000,"minRequestAmount":10,"statIntervalMs":5000,"statSlidingWindowBucketCount":5,"maxAllowedRtMs":80,"threshold":0.4,"probeNum":3}]`,
	"isolation":      `[{"id":"1","resource":"r","metricType":0,"threshold":4000000000}]`,
	"hotspot":        `[{"id":"1","resource":"r","metricType":1,"controlBehavior":1,"paramIndex":-2,"threshold":9,"maxQueueingTimeMs":5,"burstCount":0,"durationInSec":3,"paramsMaxCapacity":77,"specificItems":[{"valKind":0,"valStr":"-3","threshold":1},{"valKind":1,"valStr":"x|y","threshold":2},{"valKind":2,"valStr":"false","threshold":3},{"valKind":3,"valStr":"2.25","threshold":4},{"valKind":0,"valStr":"13800138000","threshold":9000000000},{"valKind":0,"valStr":"-9000000000","threshold":6}]}]`,
}

// roundTrip: a rule list written in the module's wire format decodes to exactly the rules it describes.
func roundTrip(c *props.Ctx, m *mod) {
	check := func(name string, orig interface{}, parse func([]byte) (interface{}, error), norm func(interface{}) interface{}) {
		b, err := json.Marshal(orig)
		if err != nil {
			c.R.HarnessError(err.Error())
			return
		}
		if g, gerr := parse([]byte(golden[name])); gerr != nil || !reflect.DeepEqual(norm(g), norm(orig)) {
			c.R.Violate(report.Violation{Signature: signature(m.Name, "round trip"), What: fmt.Sprintf("%s: the documented wire text %s decodes to %+v (err %v), not to the rules it describes", name, golden[name], g, gerr),
				Scenario: m.Name + " golden wire text", Replay: map[string]string{"module": m.Name, "wire": golden[name]}})
		}
		if string(b) != golden[name] {
			c.R.Violate(report.Violation{Signature: signature(m.Name, "round trip"), What: fmt.Sprintf("%s: the rules are written as %s, the documented wire text is %s", name, b, golden[name]),
				Scenario: m.Name + " golden wire text", Replay: map[string]string{"module": m.Name, "wire": string(b)}})
		}
		got, err := parse(b)
		c.R.Evaluations++
		c.R.Outcome("roundtrip|" + name)
		if err != nil || !reflect.DeepEqual(norm(got), norm(orig)) {
			c.R.Violate(report.Violation{Signature: signature(m.Name, "round trip"), What: fmt.Sprintf("%s wire round trip: wrote %s, decoded %+v (err %v)", name, b, got, err),
				Scenario: m.Name + " round trip", Replay: map[string]string{"module": m.Name, "wire": string(b)}})
		}
	}
	id := func(x interface{}) interface{} { return x }
	switch m.Name {
	case "flow":
		check("flow", []*flow.Rule{
			{ID: "1", Resource: "r", TokenCalculateStrategy: flow.WarmUp, ControlBehavior: flow.Throttling, Threshold: 12.5, RelationStrategy: flow.AssociatedResource, RefResource: "q",
				MaxQueueingTimeMs: 7, WarmUpPeriodSec: 3, WarmUpColdFactor: 4, StatIntervalInMs: 700},
			{ID: "2", Resource: "m", TokenCalculateStrategy: flow.MemoryAdaptive, Threshold: 1, LowMemUsageThreshold: 1000, HighMemUsageThreshold: 10, MemLowWaterMarkBytes: 1 << 20, MemHighWaterMarkBytes: 1 << 40},
		}, datasource.FlowRuleJsonArrayParser, id)
	case "system":
		check("system", []*system.Rule{{ID: "1", MetricType: system.CpuUsage, TriggerCount: 0.75, Strategy: system.BBR}, {ID: "2", MetricType: system.Load, TriggerCount: 3, Strategy: system.NoAdaptive}},
			datasource.SystemRuleJsonArrayParser, id)
	case "circuitbreaker":
		check("circuitbreaker", []*cb.Rule{{Id: "1", Resource: "r", Strategy: cb.SlowRequestRatio, RetryTimeoutMs: 3000, MinRequestAmount: 10, StatIntervalMs: 5000, StatSlidingWindowBucketCount: 5, MaxAllowedRtMs: 80, Threshold: 0.4, ProbeNum: 3}},
			datasource.CircuitBreakerRuleJsonArrayParser, id)
	case "isolation":
		check("isolation", []*isolation.Rule{{ID: "1", Resource: "r", MetricType: isolation.Concurrency, Threshold: 4000000000}}, datasource.IsolationRuleJsonArrayParser, id)
	case "hotspot":
		wire := []*datasource.HotspotRule{{ID: "1", Resource: "r", MetricType: hotspot.QPS, ControlBehavior: hotspot.Throttling, ParamIndex: -2, Threshold: 9, MaxQueueingTimeMs: 5, BurstCount: 0, DurationInSec: 3, ParamsMaxCapacity: 77,
			SpecificItems: []datasource.SpecificValue{{ValKind: datasource.KindInt, ValStr: "-3", Threshold: 1}, {ValKind: datasource.KindString, ValStr: "x|y", Threshold: 2}, {ValKind: datasource.KindBool, ValStr: "false", Threshold: 3}, {ValKind: datasource.KindFloat64, ValStr: "2.25", Threshold: 4},
				// integers beyond 32 bits (phone numbers, ids) are ordinary argument values
				{ValKind: datasource.KindInt, ValStr: "13800138000", Threshold: 9000000000}, {ValKind: datasource.KindInt, ValStr: "-9000000000", Threshold: 6}}}}
		want := []*hotspot.Rule{{ID: "1", Resource: "r", MetricType: hotspot.QPS, ControlBehavior: hotspot.Throttling, ParamIndex: -2, Threshold: 9, MaxQueueingTimeMs: 5, DurationInSec: 3, ParamsMaxCapacity: 77,
			SpecificItems: map[interface{}]int64{-3: 1, "x|y": 2, false: 3, 2.25: 4, 13800138000: 9000000000, -9000000000: 6}}}
		b, _ := json.Marshal(wire)
		if g, gerr := datasource.HotSpotParamRuleJsonArrayParser([]byte(golden["hotspot"])); gerr != nil || !reflect.DeepEqual(g, want) || string(b) != golden["hotspot"] {
			c.R.Violate(report.Violation{Signature: signature(m.Name, "round trip"), What: fmt.Sprintf("hotspot: the documented wire text %s decodes to %+v (err %v) / the rules are written as %s", golden["hotspot"], g, gerr, b), Scenario: "hotspot golden wire text", Replay: map[string]string{"module": "hotspot", "wire": golden["hotspot"]}})
		}
		got, err := datasource.HotSpotParamRuleJsonArrayParser(b)
		c.R.Evaluations++
		c.R.Outcome("roundtrip|hotspot")
		if err != nil || !reflect.DeepEqual(got, want) {
			c.R.Violate(report.Violation{Signature: signature(m.Name, "round trip"), What: fmt.Sprintf("hotspot wire round trip: wrote %s, decoded %+v (err %v)", b, got, err), Scenario: "hotspot round trip", Replay: map[string]string{"module": "hotspot", "wire": string(b)}})
		}
	}
}

func replay(c *props.Ctx, raw json.RawMessage) (bool, string) {
	var d replayDoc
	if err := json.Unmarshal(raw, &d); err != nil {
		return false, err.Error()
	}
	if d.Module == "file" {
		return replayFile(raw)
	}
	for _, m := range mods() {
		if m.Name == d.Module {
			w := seq.Replay(mkScen(m), d.Path)
			return w != "", w
		}
	}
	return false, "round-trip cases are re-evaluated by the quick check itself"
}

func init() {
	props.Register(&props.Prop{ID: "C18", Run: run, Replay: replay})
}

// panickingCallbacks: a handler is built from a converter and an updater supplied by the user; whatever either
// of them panics with (an error, a runtime error, a plain string, a number, nil) stays inside Handle.
func panickingCallbacks(c *props.Ctx) {
	values := map[string]func(){
		"error value":   func() { panic(fmt.Errorf("c18 error")) },
		"runtime error": func() { var m map[string]int; m["x"] = 1 },
		"string":        func() { panic("c18 string") },
		"integer":       func() { panic(18) },
		"struct":        func() { panic(struct{ A int }{1}) },
	}
	for name, boom := range values {
		for _, where := range []string{"converter", "updater"} {
			name, boom, where := name, boom, where
			conv := func(src []byte) (interface{}, error) {
				if where == "converter" {
					boom()
				}
				return []int{1}, nil
			}
			upd := func(data interface{}) error {
				if where == "updater" {
					boom()
				}
				return nil
			}
			h := datasource.NewDefaultPropertyHandler(conv, upd)
			var escaped interface{}
			var err error
			func() {
				defer func() { escaped = recover() }()
				err = h.Handle([]byte("[1]"))
			}()
			c.R.Evaluations++
			c.R.Outcome("callback-panic|" + name + "|" + where)
			what := ""
			if escaped != nil {
				what = fmt.Sprintf("Handle panicked out to the datasource when its %s panicked with a %s: %v", where, name, escaped)
			}
			_ = err // what Handle returns after containing a panic is not stated by the property (it returns nil)
			if what != "" {
				c.R.Violate(report.Violation{Signature: "C18:handler:callback-panic-escapes", What: what, Scenario: "callback panic: " + where + " / " + name,
					Replay: map[string]string{"module": "callback-panic", "where": where, "value": name}})
			}
		}
	}
}
