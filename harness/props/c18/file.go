package c18

import (
	"encoding/json"
	"fmt"
	"os"
	"path/filepath"
	"runtime"
	"strings"

	"github.com/alibaba/sentinel-golang/core/flow"
	"github.com/alibaba/sentinel-golang/ext/datasource"
	fileds "github.com/alibaba/sentinel-golang/ext/datasource/file"
	vfs "github.com/alibaba/sentinel-golang/verifshim/vfsnotify"

	"verifharness/env"
	"verifharness/props"
	"verifharness/report"
)

// file datasource: sequences of file-system events delivered through the fake watcher.
var fileOps = []string{"write-A", "write-B", "write-big", "write-garbage", "truncate", "chmod", "replace-with-B", "rename-away", "remove"}

// bigPayload: a valid rule list of more than 1 MiB (1100 rules with long resource names) - size is no reason
// for a file's content not to take effect
var bigPayload = func() string {
	var b strings.Builder
	b.WriteString("[")
	for i := 0; i < 1100; i++ {
		if i > 0 {
			b.WriteString(",")
		}
		fmt.Fprintf(&b, `{"id":"big%d","resource":"%s%d","threshold":5}`, i, strings.Repeat("r", 1000), i)
	}
	b.WriteString("]")
	return b.String()
}()

func scratch() string {
	if st, err := os.Stat("/dev/shm"); err == nil && st.IsDir() {
		return "/dev/shm"
	}
	return os.TempDir()
}

// writeWhole replaces the file's content in one step (new file renamed over the path). The consumer re-reads the
// file on EVERY event, the barrier's second no-op event included, and that last read is still in progress when the
// harness goes on: with a plain os.WriteFile (truncate, then write) it could see the empty file in between and
// clear the rules - a torn read made by the harness, not an event sequence of the alphabet.
func writeWhole(path string, content []byte) {
	tmp := path + ".w"
	_ = os.WriteFile(tmp, content, 0o644)
	_ = os.Rename(tmp, path)
}

func barrier(w *vfs.Watcher, path string) {
	// two no-op events: when the second has been received the first has been processed completely
	w.VerifInject(vfs.Event{Name: path, Op: vfs.Chmod})
	w.VerifInject(vfs.Event{Name: path, Op: vfs.Chmod})
}

func flowIDs() []string {
	ids := []string{}
	for _, r := range flow.GetRules() {
		ids = append(ids, r.ID)
	}
	return sorted(ids)
}

func runFileSeq(root string, seqOps []int) string {
	m := mods()[0] // flow payloads
	env.ResetAll(env.DefaultGeometry, 1700000000000)
	env.Clock.SleepAdvances = true
	dir, _ := os.MkdirTemp(root, "c18f-")
	defer os.RemoveAll(dir)
	path := filepath.Join(dir, "rules.json")
	content := m.P1
	writeWhole(path, []byte(content))
	// two handlers of different wire formats on the one datasource: the first cannot decode what the file holds
	// (it reports a conversion error for every payload); the second, the flow handler, is the one observed
	other := datasource.NewDefaultPropertyHandler(
		func(src []byte) (interface{}, error) {
			return nil, datasource.NewError(datasource.ConvertSourceError, "not this handler's format")
		},
		func(interface{}) error { return nil })
	ds := fileds.NewFileDataSource(path, other, datasource.NewFlowRulesHandler(datasource.FlowRuleJsonArrayParser))
	if err := ds.Initialize(); err != nil {
		return "Initialize failed: " + err.Error()
	}
	w := vfs.VerifLast()
	expect := func(c string) []string {
		if c == "" {
			return []string{}
		}
		ids, ok := m.Decode([]byte(c))
		if !ok {
			return nil // undecodable: previous rules stay
		}
		return sorted(ids)
	}
	want := expect(content)
	if got := flowIDs(); fmt.Sprint(got) != fmt.Sprint(want) {
		return fmt.Sprintf("after Initialize the rules in force are %v, the file describes %v", got, want)
	}
	for step, o := range seqOps {
		name := fileOps[o]
		terminal := false
		switch name {
		case "write-A":
			content = m.P1
			writeWhole(path, []byte(content))
			w.VerifInject(vfs.Event{Name: path, Op: vfs.Write})
		case "write-B":
			content = m.P2
			writeWhole(path, []byte(content))
			w.VerifInject(vfs.Event{Name: path, Op: vfs.Write})
		case "write-big":
			content = bigPayload
			writeWhole(path, []byte(content))
			w.VerifInject(vfs.Event{Name: path, Op: vfs.Write})
		case "write-garbage":
			content = `[{"id":"f1","resou`
			writeWhole(path, []byte(content))
			w.VerifInject(vfs.Event{Name: path, Op: vfs.Write})
		case "truncate":
			content = ""
			writeWhole(path, nil)
			w.VerifInject(vfs.Event{Name: path, Op: vfs.Write})
		case "chmod":
			w.VerifInject(vfs.Event{Name: path, Op: vfs.Chmod})
		case "replace-with-B":
			// atomic replace: a new file is renamed over the path; the old inode reports Rename
			content = m.P2
			tmp := path + ".new"
			_ = os.WriteFile(tmp, []byte(content), 0o644)
			_ = os.Rename(tmp, path)
			w.VerifInject(vfs.Event{Name: path, Op: vfs.Rename})
		case "rename-away":
			_ = os.Rename(path, path+".gone")
			content = "\x00removed"
			w.VerifInject(vfs.Event{Name: path, Op: vfs.Rename})
			terminal = true
		case "remove":
			_ = os.Remove(path)
			content = "\x00removed"
			w.VerifInject(vfs.Event{Name: path, Op: vfs.Remove})
			terminal = true
		}
		if terminal {
			// the consumer clears the rules and stops; wait (bounded by scheduling rounds, not by time)
			for i := 0; i < 20000 && len(flowIDs()) != 0; i++ {
				runtime.Gosched()
			}
			if got := flowIDs(); len(got) != 0 {
				return fmt.Sprintf("step %d %s: the file is gone but the rules %v are still in force", step, name, got)
			}
			return ""
		}
		barrier(w, path)
		if e := expect(content); e != nil {
			want = e
		}
		if got := flowIDs(); fmt.Sprint(got) != fmt.Sprint(want) {
			return fmt.Sprintf("step %d %s: rules in force %v, the file now describes %v", step, name, got, want)
		}
	}
	return ""
}

type fileReplay struct {
	Module string   `json:"module"`
	Seq    []int    `json:"seq"`
	Ops    []string `json:"ops"`
}

func fileDatasource(c *props.Ctx) {
	depth := 3
	if !c.Quick() {
		depth = 4
	}
	c.R.Bounds["file_event_sequence_depth"] = depth
	root, err := os.MkdirTemp(scratch(), "verif-c18-")
	if err != nil {
		c.R.HarnessError(err.Error())
		return
	}
	defer os.RemoveAll(root)
	var seqs [][]int
	var rec func(cur []int)
	rec = func(cur []int) {
		if len(cur) > 0 {
			seqs = append(seqs, append([]int(nil), cur...))
		}
		if len(cur) == depth {
			return
		}
		if len(cur) > 0 && (fileOps[cur[len(cur)-1]] == "rename-away" || fileOps[cur[len(cur)-1]] == "remove") {
			return // terminal event
		}
		for o := range fileOps {
			rec(append(cur, o))
		}
	}
	rec(nil)
	per := 0
	for _, s := range seqs {
		if c.Expired() {
			c.R.Cap("time budget reached before all file event sequences were explored")
			break
		}
		v := runFileSeq(root, s)
		c.R.Evaluations++
		c.R.Transitions += int64(len(s))
		names := make([]string, len(s))
		for i, o := range s {
			names[i] = fileOps[o]
		}
		c.R.Outcome("file|" + names[len(names)-1] + "|" + fmt.Sprint(v == ""))
		if v != "" {
			per++
			if per <= 3 {
				sig := "C18:file:does-not-converge"
				if strings.Contains(v, "file is gone") {
					sig = "C18:file:not-cleared-after-removal"
				}
				c.R.Violate(report.Violation{Signature: sig, What: v, Scenario: "file datasource: " + strings.Join(names, " "), Replay: fileReplay{"file", s, names}})
			}
		}
	}
	c.R.Bounds["file_event_sequences"] = len(seqs)
}

func replayFile(raw json.RawMessage) (bool, string) {
	var d fileReplay
	if err := json.Unmarshal(raw, &d); err != nil {
		return false, err.Error()
	}
	root, _ := os.MkdirTemp(scratch(), "verif-c18r-")
	defer os.RemoveAll(root)
	v := runFileSeq(root, d.Seq)
	return v != "", v
}
