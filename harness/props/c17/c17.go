// Package c17: the metric log is searchable, bounded, and survives truncation at any byte.
//
// Engine B + exhaustive cut points (fault enumeration). For every configuration (file size
// limit x file count limit) and EVERY write history up to a depth bound (per-second batches
// of 1-2 items; second steps +0, +1, +2, +1 day) the real writer produces a directory in
// memory-backed scratch space; then
//   - every single query (time range x resource, from-time x line limit, bounds over all
//     written seconds +-1) on a fresh searcher and every pair of queries on ONE searcher is
//     compared with the list of accepted, retained items;
//   - for the shorter histories the last non-empty data file and (separately) its index file
//     are truncated at EVERY byte offset and the queries are re-run: no error, no panic, only
//     items that were written, and every item whose line and index entry lie before the cut.
package c17

import (
	"encoding/json"
	"fmt"
	"os"
	"path/filepath"
	"sort"
	"strings"

	"github.com/alibaba/sentinel-golang/core/base"
	"github.com/alibaba/sentinel-golang/core/config"
	"github.com/alibaba/sentinel-golang/core/log/metric"

	"verifharness/env"
	"verifharness/props"
	"verifharness/report"
)

const T0 = int64(1700000000000) // 2023-11-14 22:13:20 UTC
// the application name has two dots (as in "com.example.shop"): the file name is formed from it
const app = "v.app.x"

// appFile is the application part of the metric file names (dots become dashes).
const appFile = "v-app-x"

// otherApp: a second application in the same log directory.
const otherApp = "pre.v.app.x"

type Config struct {
	MaxSize  uint64 `json:"max_size"`
	MaxFiles uint32 `json:"max_files"`
	// CreateOffMs: the writer is created this many milliseconds into its first second (a write in that same
	// second is accepted like any other)
	CreateOffMs int64 `json:"create_off_ms,omitempty"`
}

type wop struct {
	Step  int64 `json:"step_s"`
	Batch int   `json:"batch"`
}

var wops = []wop{{0, 1}, {1, 1}, {1, 2}, {0, 2}, {2, 1}, {2, 2}, {86400, 1}}

func (w wop) String() string { return fmt.Sprintf("write(+%ds,%d)", w.Step, w.Batch) }

type item struct {
	sec    int64
	res    string
	n      uint64 // distinguishing counter
	file   string // data file it was written to
	end    int64  // byte offset just after its line in that file
	idxEnd int64  // size of the index file right after this item's second was indexed (0 if never)
}

func (it item) key() string { return fmt.Sprintf("%d|%s|%d", it.sec, it.res, it.n) }

func keyOf(m *base.MetricItem) string {
	return fmt.Sprintf("%d|%s|%d", m.Timestamp/1000, m.Resource, m.PassQps)
}

func exact(m *base.MetricItem, it item) bool {
	return int64(m.Timestamp) == it.sec*1000 && m.Resource == it.res && m.PassQps == it.n && m.BlockQps == it.n+1 && m.CompleteQps == it.n+2 &&
		m.ErrorQps == it.n+3 && m.AvgRt == it.n+34 && m.OccupiedPassQps == 0 && m.Concurrency == uint32(it.n+5) && m.Classification == 12
}

type world struct {
	dir     string
	cfg     Config
	created int64 // second of creation
	items   []item
	lastSec int64
	// snaps[k]: every file of the log directory after the k-th write, and the second of that write
	snaps []dirSnap
}

type dirSnap struct {
	sec   int64
	files map[string][]byte
}

func readDirAll(dir string) map[string][]byte {
	out := map[string][]byte{}
	es, _ := os.ReadDir(dir)
	for _, e := range es {
		if b, err := os.ReadFile(filepath.Join(dir, e.Name())); err == nil && !e.IsDir() {
			out[e.Name()] = b
		}
	}
	return out
}

// setDir makes dir hold exactly the given files (existing files are rewritten in place, others removed):
// what a reader sees when the writer appended, rolled and pruned in the meantime.
func setDir(dir string, files map[string][]byte) {
	es, _ := os.ReadDir(dir)
	for _, e := range es {
		if _, ok := files[e.Name()]; !ok {
			_ = os.Remove(filepath.Join(dir, e.Name()))
		}
	}
	for n, b := range files {
		if old, err := os.ReadFile(filepath.Join(dir, n)); err == nil && string(old) == string(b) {
			continue
		}
		if err := os.WriteFile(filepath.Join(dir, n), b, 0o644); err != nil {
			panic(err)
		}
	}
}

func scratchRoot() string {
	if st, err := os.Stat("/dev/shm"); err == nil && st.IsDir() {
		return "/dev/shm"
	}
	return os.TempDir()
}

func dataFiles(dir string) []string {
	es, _ := os.ReadDir(dir)
	var out []string
	for _, e := range es {
		n := e.Name()
		if strings.HasPrefix(n, appFile+"-metrics.log") && !strings.HasSuffix(n, ".idx") {
			out = append(out, n)
		}
	}
	return out
}

// build runs the history on the real writer.
func build(root string, cfg Config, hist []int) (*world, string) {
	dir, err := os.MkdirTemp(root, "c17-")
	if err != nil {
		panic(err)
	}
	env.Install()
	env.Clock.SetMs(T0)
	c := config.NewDefaultConfig()
	c.Sentinel.Log.Dir = dir
	c.Sentinel.App.Name = app
	config.ResetGlobalConfig(c)
	w := &world{dir: dir, cfg: cfg, created: T0 / 1000, lastSec: T0 / 1000}
	// another application logs into the same directory; its name CONTAINS this application's name. Its file is
	// none of this writer's business (retention) and none of this searcher's (queries)
	if w2, err2 := metric.NewDefaultMetricLogWriterOfApp(1<<20, 4, otherApp); err2 == nil {
		_ = w2.Write(uint64(T0), []*base.MetricItem{{Resource: "OTHER-APP", Classification: 12, PassQps: 1}})
		if cl, ok := w2.(interface{ Close() error }); ok {
			_ = cl.Close()
		}
	}
	env.Clock.SetMs(T0 + cfg.CreateOffMs)
	wr, err := metric.NewDefaultMetricLogWriterOfApp(cfg.MaxSize, cfg.MaxFiles, app)
	if err != nil {
		return w, "writer creation failed: " + err.Error()
	}
	var n uint64 = 10
	sec := T0 / 1000
	for _, h := range hist {
		op := wops[h]
		sec += op.Step
		env.Clock.SetMs(sec * 1000)
		var batch []*base.MetricItem
		var its []item
		for b := 0; b < op.Batch; b++ {
			res := resNames[b]
			n += 10
			batch = append(batch, &base.MetricItem{Resource: res, Classification: 12, PassQps: n, BlockQps: n + 1, CompleteQps: n + 2, ErrorQps: n + 3, AvgRt: n + 34, Concurrency: uint32(n + 5)})
			its = append(its, item{sec: sec, res: res, n: n})
		}
		before := map[string]string{}
		for _, f := range dataFiles(dir) {
			if b, err := os.ReadFile(filepath.Join(dir, f)); err == nil {
				before[f] = string(b)
			}
		}
		if err := wr.Write(uint64(sec*1000), batch); err != nil {
			return w, fmt.Sprintf("Write(%d) failed: %v", sec, err)
		}
		// which file took the batch? (the batch goes to exactly one file.) A data file that existed
		// before the write may have been removed (pruning) or appended to, never rewritten.
		grown := ""
		var endOff int64
		for _, f := range dataFiles(dir) {
			b, _ := os.ReadFile(filepath.Join(dir, f))
			old, existed := before[f]
			if existed && !strings.HasPrefix(string(b), old) {
				return w, fmt.Sprintf("Write(%d) rewrote the existing data file %s (%d bytes of accepted items replaced by %d bytes)", sec, f, len(old), len(b))
			}
			if len(b) > len(old) {
				grown, endOff = f, int64(len(b))
			}
		}
		if grown == "" {
			// the writer rolls AFTER writing: with a tight file-count limit the file that took the
			// batch may have been pruned within the same call. Otherwise the items are simply gone.
			pruned := false
			now := map[string]bool{}
			for _, f := range dataFiles(dir) {
				now[f] = true
			}
			for f := range before {
				if !now[f] {
					pruned = true
				}
			}
			if !pruned {
				return w, fmt.Sprintf("Write(%d) was accepted but no data file holds the items afterwards", sec)
			}
		}
		var idxSize int64
		if grown != "" {
			if st, err := os.Stat(filepath.Join(dir, grown+".idx")); err == nil {
				idxSize = st.Size()
			}
		}
		// line ends: the batch's lines end at endOff; earlier lines of the batch end earlier
		for bi := range its {
			its[bi].file = grown
			its[bi].end = endOff // conservative for the first of two: its line certainly ends before endOff
			its[bi].idxEnd = idxSize
		}
		if len(its) == 2 && grown != "" {
			// exact end of the first line: read the file tail
			if b, err := os.ReadFile(filepath.Join(dir, grown)); err == nil {
				if p := strings.LastIndex(strings.TrimSuffix(string(b[:endOff]), "\n"), "\n"); p >= 0 {
					its[0].end = int64(p + 1)
				}
			}
		}
		w.items = append(w.items, its...)
		w.lastSec = sec
		w.snaps = append(w.snaps, dirSnap{sec, readDirAll(dir)})
	}
	if cl, ok := wr.(interface{ Close() error }); ok {
		_ = cl.Close()
	}
	return w, ""
}

// retained: accepted items whose data file still exists.
func (w *world) retained() []item {
	have := map[string]bool{}
	for _, f := range dataFiles(w.dir) {
		have[f] = true
	}
	var out []item
	for _, it := range w.items {
		if it.file != "" && have[it.file] {
			out = append(out, it)
		}
	}
	return out
}

type query struct {
	Kind     int    `json:"kind"` // 0 FindByTimeAndResource, 1 FindFromTimeWithMaxLines
	Begin    int64  `json:"begin_s"`
	End      int64  `json:"end_s"`
	Res      string `json:"res"`
	MaxLines uint32 `json:"max_lines"`
}

func (q query) String() string {
	if q.Kind == 0 {
		return fmt.Sprintf("FindByTimeAndResource(%d,%d,%q)", q.Begin, q.End, q.Res)
	}
	return fmt.Sprintf("FindFromTimeWithMaxLines(%d,%d)", q.Begin, q.MaxLines)
}

func (w *world) seconds() []int64 {
	m := map[int64]bool{w.created - 1: true, w.created: true}
	for _, it := range w.items {
		m[it.sec-1], m[it.sec], m[it.sec+1] = true, true, true
	}
	var out []int64
	for s := range m {
		out = append(out, s)
	}
	sort.Slice(out, func(i, j int) bool { return out[i] < out[j] })
	return out
}

func (w *world) queries(full bool) []query {
	secs := w.seconds()
	var out []query
	for i, b := range secs {
		for _, e := range secs[i:] {
			if !full && e != b && e != secs[len(secs)-1] {
				continue
			}
			out = append(out, query{Kind: 0, Begin: b, End: e, Res: ""})
			if full {
				out = append(out, query{Kind: 0, Begin: b, End: e, Res: resNames[0]}, query{Kind: 0, Begin: b, End: e, Res: resNames[1]})
			}
		}
		for _, n := range []uint32{1, 2, 100} {
			if !full && n == 2 {
				continue
			}
			out = append(out, query{Kind: 1, Begin: b, MaxLines: n})
		}
	}
	return out
}

// expect computes the reference answer over the given (ordered) items.
func expect(q query, items []item) []string {
	var out []string
	if q.Kind == 0 {
		for _, it := range items {
			if it.sec >= q.Begin && it.sec <= q.End && (q.Res == "" || q.Res == it.res) {
				out = append(out, it.key())
			}
		}
		return out
	}
	cnt := 0
	var last int64 = -1
	for _, it := range items {
		if it.sec < q.Begin {
			continue
		}
		if cnt >= int(q.MaxLines) && it.sec != last {
			break
		}
		out = append(out, it.key())
		cnt++
		last = it.sec
	}
	return out
}

func runQuery(s metric.MetricSearcher, q query) (res []*base.MetricItem, err error, pan interface{}) {
	defer func() { pan = recover() }()
	if q.Kind == 0 {
		res, err = s.FindByTimeAndResource(uint64(q.Begin*1000), uint64(q.End*1000), q.Res)
	} else {
		res, err = s.FindFromTimeWithMaxLines(uint64(q.Begin*1000), q.MaxLines)
	}
	return
}

func keys(ms []*base.MetricItem) []string {
	var out []string
	for _, m := range ms {
		out = append(out, keyOf(m))
	}
	return out
}

func (w *world) newSearcher(dir string) metric.MetricSearcher {
	s, err := metric.NewDefaultMetricSearcher(dir, metric.FormMetricFileName(app, false))
	if err != nil {
		panic(err)
	}
	return s
}

type failure struct {
	sig, what string
	extra     map[string]interface{}
}

// checkUncut: searchability, order, no duplicates, independence of earlier queries, file count.
func (w *world) checkUncut(c *props.Ctx, hist []int, pairs bool) *failure {
	if n := len(dataFiles(w.dir)); n > int(w.cfg.MaxFiles) {
		return &failure{"C17:too-many-files", fmt.Sprintf("%d metric log files exist, the configured maximum is %d", n, w.cfg.MaxFiles), nil}
	}
	otherLeft := false
	if es, err := os.ReadDir(w.dir); err == nil {
		for _, e := range es {
			if strings.HasPrefix(e.Name(), "pre-"+appFile+"-metrics.log") && !strings.HasSuffix(e.Name(), ".idx") {
				otherLeft = true
			}
		}
	}
	if !otherLeft {
		return &failure{"C17:foreign-file-removed", "the metric log file of another application in the same directory was removed by this writer's retention", nil}
	}
	ret := w.retained()
	// bounded means the OLDEST files go: the retained items are a suffix of the accepted ones
	if len(ret) > 0 {
		first := -1
		for i, it := range w.items {
			if it.key() == ret[0].key() {
				first = i
			}
		}
		if first < 0 || len(w.items)-first != len(ret) {
			return &failure{"C17:newer-items-dropped-before-older", fmt.Sprintf("%d of %d accepted items are retained but they are not the most recent ones (first retained is #%d)", len(ret), len(w.items), first), nil}
		}
	}
	byKey := map[string]item{}
	for _, it := range w.items {
		byKey[it.key()] = it
	}
	qs := w.queries(true)
	for _, q := range qs {
		got, err, pan := runQuery(w.newSearcher(w.dir), q)
		c.R.Evaluations++
		if f := w.judge(q, got, err, pan, ret, byKey, ""); f != nil {
			return f
		}
	}
	// a LIVE searcher: it answered a query after the k-th write, then the writer went on (appending, rolling,
	// pruning the file the searcher remembers); every later query on it must still be answered from the files
	// that exist now. Only directory states that lost a file since then differ from the pair pass below.
	final := readDirAll(w.dir)
	var ks []int
	for k := 0; k+1 < len(w.snaps); k++ {
		for n := range w.snaps[k].files {
			if _, ok := final[n]; !ok {
				ks = append(ks, k)
				break
			}
		}
	}
	if len(ks) > 3 {
		// long roll chains: the earliest, a middle and the latest state that lost a file since
		ks = []int{ks[0], ks[len(ks)/2], ks[len(ks)-1]}
	}
	liveQs := w.queries(false)
	if len(liveQs) > 60 {
		// long chains have hundreds of queries: every stride-th one, so that the pass stays linear in the chain
		stride := len(liveQs)/60 + 1
		var sel []query
		for i := 0; i < len(liveQs); i += stride {
			sel = append(sel, liveQs[i])
		}
		liveQs = sel
	}
	for _, k := range ks {
		if c.Expired() {
			break
		}
		scratch, err := os.MkdirTemp(filepath.Dir(w.dir), "c17-live-")
		if err != nil {
			panic(err)
		}
		sk := w.snaps[k].sec
		for _, touch := range []query{{Kind: 1, Begin: sk, MaxLines: 1}, {Kind: 0, Begin: sk, End: sk}, {Kind: 1, Begin: w.created, MaxLines: 1}} {
			for _, q := range liveQs {
				setDir(scratch, w.snaps[k].files)
				sr := w.newSearcher(scratch)
				if _, err, pan := runQuery(sr, touch); err != nil || pan != nil {
					break
				}
				setDir(scratch, final)
				got, err, pan := runQuery(sr, q)
				c.R.Evaluations++
				if f := w.judge(q, got, err, pan, ret, byKey, fmt.Sprintf(" on a searcher that answered %v after write #%d, before %d further writes", touch, k+1, len(w.snaps)-1-k)); f != nil {
					os.RemoveAll(scratch)
					return f
				}
			}
		}
		os.RemoveAll(scratch)
	}
	if pairs {
		firsts := w.queries(false)
		for _, q1 := range firsts {
			s := w.newSearcher(w.dir)
			if _, err, pan := runQuery(s, q1); err != nil || pan != nil {
				continue // already reported by the single-query pass
			}
			for _, q2 := range qs {
				// a searcher keeps a position cache: run q1 again before every q2 to restore it
				got, err, pan := runQuery(s, q2)
				c.R.Evaluations++
				if f := w.judge(q2, got, err, pan, ret, byKey, " after "+q1.String()+" on the same searcher"); f != nil {
					return f
				}
				_, _, _ = runQuery(s, q1)
			}
		}
	}
	return nil
}

func (w *world) judge(q query, got []*base.MetricItem, err error, pan interface{}, ret []item, byKey map[string]item, ctx string) *failure {
	if pan != nil {
		return &failure{"C17:search-panics", fmt.Sprintf("%v%s panicked: %v", q, ctx, pan), nil}
	}
	if err != nil {
		return &failure{"C17:search-error", fmt.Sprintf("%v%s failed: %v", q, ctx, err), nil}
	}
	want := expect(q, ret)
	gk := keys(got)
	for _, m := range got {
		it, ok := byKey[keyOf(m)]
		if !ok || !exact(m, it) {
			return &failure{"C17:invented-item", fmt.Sprintf("%v%s returned an item that was never written: %+v", q, ctx, *m), nil}
		}
	}
	if q.Kind == 1 {
		// "from a time with a line limit": the statement fixes order, absence of duplicates and
		// that nothing is invented, not where exactly the limit cuts. Accept any prefix of the
		// matching items that holds at least min(limit, all) lines and at most the complete-second cut.
		all := expect(query{Kind: 0, Begin: q.Begin, End: 1 << 40}, ret)
		min := int(q.MaxLines)
		if len(all) < min {
			min = len(all)
		}
		if len(gk) >= min && len(gk) <= len(want) && fmt.Sprint(gk) == fmt.Sprint(all[:len(gk)]) {
			return nil
		}
	}
	if fmt.Sprint(gk) != fmt.Sprint(want) {
		cls := "C17:wrong-result"
		// classify the frequent causes by what is missing
		missing := diff(want, gk)
		if len(missing) > 0 && len(diff(gk, want)) == 0 {
			cls = "C17:items-not-found"
			first := byKey[missing[0]]
			if first.sec == w.created {
				cls = "C17:items-not-found:written-in-the-creation-second"
			} else if first.idxEnd == 0 || w.noIndexEntry(first) {
				cls = "C17:items-not-found:no-index-entry-in-their-file"
			}
		}
		if ctx != "" {
			cls += ":after-earlier-query"
		}
		return &failure{cls, fmt.Sprintf("%v%s returned %v, the retained accepted items matching it are %v", q, ctx, gk, want), nil}
	}
	return nil
}

// noIndexEntry: the data file holding the item has no index entry for the item's second.
func (w *world) noIndexEntry(it item) bool {
	b, err := os.ReadFile(filepath.Join(w.dir, it.file+".idx"))
	if err != nil {
		return true
	}
	for i := 0; i+16 <= len(b); i += 16 {
		var sec uint64
		for k := 0; k < 8; k++ {
			sec = sec<<8 | uint64(b[i+k])
		}
		if int64(sec) == it.sec {
			return false
		}
	}
	return true
}

func diff(a, b []string) []string {
	m := map[string]int{}
	for _, x := range b {
		m[x]++
	}
	var out []string
	for _, x := range a {
		if m[x] > 0 {
			m[x]--
		} else {
			out = append(out, x)
		}
	}
	return out
}

func copyDir(src, dst string) {
	_ = os.MkdirAll(dst, 0o755)
	es, _ := os.ReadDir(src)
	for _, e := range es {
		b, err := os.ReadFile(filepath.Join(src, e.Name()))
		if err == nil {
			_ = os.WriteFile(filepath.Join(dst, e.Name()), b, 0o644)
		}
	}
}

// checkCuts truncates the last non-empty data file (and, separately, its index) at every byte.
func (w *world) checkCuts(c *props.Ctx, root string, uncutOK map[string]bool) *failure {
	files := dataFiles(w.dir)
	sort.Strings(files)
	last := ""
	for _, f := range files {
		if st, err := os.Stat(filepath.Join(w.dir, f)); err == nil && st.Size() > 0 {
			last = f // names sort by date then roll number for the short histories used here
		}
	}
	if last == "" {
		return nil
	}
	byKey := map[string]item{}
	for _, it := range w.items {
		byKey[it.key()] = it
	}
	ret := w.retained()
	qs := w.queries(false)
	for _, target := range []string{last, last + ".idx"} {
		st, err := os.Stat(filepath.Join(w.dir, target))
		if err != nil {
			continue
		}
		cut, _ := os.MkdirTemp(root, "c17cut-")
		copyDir(w.dir, cut)
		orig, _ := os.ReadFile(filepath.Join(w.dir, target))
		for off := st.Size() - 1; off >= 0; off-- {
			_ = os.WriteFile(filepath.Join(cut, target), orig[:off], 0o644)
			// items certainly intact: not in the cut file, or line (data cut) / index entry (index cut) before the cut
			var intact []item
			for _, it := range ret {
				ok := true
				if target == last && it.file == last && it.end > off {
					ok = false
				}
				if target == last+".idx" && it.file == last && (it.idxEnd == 0 || it.idxEnd > off) {
					ok = false
				}
				if ok {
					intact = append(intact, it)
				}
			}
			for _, q := range qs {
				if !uncutOK[q.String()] {
					continue // the uncut search is already wrong for this query: do not report it twice
				}
				got, err, pan := runQuery(w.newSearcher(cut), q)
				c.R.Evaluations++
				tag := fmt.Sprintf(" with %s cut at byte %d of %d", map[bool]string{true: "the data file", false: "the index file"}[target == last], off, st.Size())
				if pan != nil {
					os.RemoveAll(cut)
					return &failure{"C17:cut:search-panics", fmt.Sprintf("%v%s panicked: %v", q, tag, pan), map[string]interface{}{"target": target, "off": off}}
				}
				if err != nil {
					os.RemoveAll(cut)
					return &failure{"C17:cut:search-error", fmt.Sprintf("%v%s failed: %v", q, tag, err), map[string]interface{}{"target": target, "off": off}}
				}
				for _, m := range got {
					it, ok := byKey[keyOf(m)]
					if !ok || !exact(m, it) {
						os.RemoveAll(cut)
						return &failure{"C17:cut:invented-item", fmt.Sprintf("%v%s returned an item that was never written: %+v", q, tag, *m), map[string]interface{}{"target": target, "off": off}}
					}
				}
				// every intact item that the uncut search returns for this query must still be returned
				wantAll := expect(q, ret)
				wantIntact := map[string]bool{}
				for _, k := range expect(q, intact) {
					wantIntact[k] = true
				}
				gotSet := map[string]bool{}
				for _, k := range keys(got) {
					gotSet[k] = true
				}
				// for the line-limited query the cut may legitimately shift the limit: only range queries
				if q.Kind == 0 {
					for _, k := range wantAll {
						if wantIntact[k] && !gotSet[k] {
							os.RemoveAll(cut)
							return &failure{"C17:cut:intact-item-lost", fmt.Sprintf("%v%s lost item %s whose line and index entry lie before the cut", q, tag, k), map[string]interface{}{"target": target, "off": off}}
						}
					}
				}
			}
		}
		os.RemoveAll(cut)
	}
	return nil
}

func histories(depth int) [][]int {
	var out [][]int
	var rec func(cur []int)
	rec = func(cur []int) {
		if len(cur) > 0 {
			out = append(out, append([]int(nil), cur...))
		}
		if len(cur) == depth {
			return
		}
		for o := range wops {
			rec(append(cur, o))
		}
	}
	rec(nil)
	return out
}

type replayDoc struct {
	Cfg  Config   `json:"cfg"`
	Hist []int    `json:"history"`
	Ops  []string `json:"ops"`
	Cuts bool     `json:"cuts"`
}

func configs() []Config {
	var out []Config
	for _, sz := range []uint64{60, 200, 1 << 20} {
		for _, n := range []uint32{1, 2, 3} {
			out = append(out, Config{MaxSize: sz, MaxFiles: n})
		}
	}
	out = append(out, Config{MaxSize: 200, MaxFiles: 2, CreateOffMs: 500}, Config{MaxSize: 1 << 20, MaxFiles: 3, CreateOffMs: 999})
	return out
}

func one(c *props.Ctx, root string, cfg Config, h []int, cuts bool, perSig map[string]int) {
	w, ferr := build(root, cfg, h)
	defer os.RemoveAll(w.dir)
	ops := make([]string, len(h))
	for i, o := range h {
		ops[i] = wops[o].String()
	}
	rep := func(f *failure) {
		perSig[f.sig]++
		if perSig[f.sig] <= 3 {
			c.R.Violate(report.Violation{Signature: f.sig, What: f.what, Scenario: fmt.Sprintf("%+v %v", cfg, ops), Replay: replayDoc{cfg, h, ops, cuts}})
		}
	}
	c.R.Transitions++
	if ferr != "" {
		sg := "C17:write-error"
		if strings.Contains(ferr, "rewrote the existing data file") {
			sg = "C17:existing-data-file-rewritten"
		} else if strings.Contains(ferr, "no data file holds the items") {
			sg = "C17:accepted-items-lost-at-write"
		}
		rep(&failure{sg, ferr, nil})
		return
	}
	if os.Getenv("VERIF_DEBUG") != "" {
		fs := dataFiles(w.dir)
		sort.Strings(fs)
		fmt.Fprintf(os.Stderr, "C17 debug: cfg=%+v writes=%d files=%v retained=%d of %d\n", cfg, len(h), fs, len(w.retained()), len(w.items))
		for _, it := range w.items {
			fmt.Fprintf(os.Stderr, "   item %s file=%s end=%d idxEnd=%d\n", it.key(), it.file, it.end, it.idxEnd)
		}
	}
	f := w.checkUncut(c, h, len(h) <= 3)
	if f != nil {
		rep(f)
	}
	c.R.Outcome(fmt.Sprintf("%v|files=%d|items=%d", cfg, len(dataFiles(w.dir)), len(w.retained())))
	if cuts {
		// which single queries are right on the uncut directory
		ok := map[string]bool{}
		ret := w.retained()
		byKey := map[string]item{}
		for _, it := range w.items {
			byKey[it.key()] = it
		}
		for _, q := range w.queries(false) {
			got, err, pan := runQuery(w.newSearcher(w.dir), q)
			if w.judge(q, got, err, pan, ret, byKey, "") == nil {
				ok[q.String()] = true
			}
		}
		if f := w.checkCuts(c, root, ok); f != nil {
			rep(f)
		}
	}
}

func run(c *props.Ctx) {
	depth, cutDepth := 3, 2
	if !c.Quick() {
		depth, cutDepth = 5, 3
	}
	c.R.Bounds["write_history_depth"] = depth
	c.R.Bounds["cut_point_history_depth"] = cutDepth
	root, err := os.MkdirTemp(scratchRoot(), "verif-c17-")
	if err != nil {
		c.R.HarnessError(err.Error())
		return
	}
	defer os.RemoveAll(root)
	hs := histories(depth)
	perSig := map[string]int{}
	idx := 0
	for _, cfg := range configs() {
		for _, h := range hs {
			idx++
			if !c.Mine(idx) {
				continue
			}
			if c.Expired() { // every own history (idx%k would only ever coincide with one shard's share)
				c.R.Cap("time budget reached before all histories were explored")
				c.R.States = c.R.Transitions
				return
			}
			one(c, root, cfg, h, len(h) <= cutDepth, perSig)
		}
	}
	// roll chains: "regardless of how many file rolls happened" - with a size limit of one byte every
	// write rolls the file; chains of 1..maxChain writes (a new second each time, or two writes per
	// second) reach two-digit roll numbers on one day and the file-count limit many times over
	maxChain := 14
	if !c.Quick() {
		maxChain = 24
	}
	c.R.Bounds["roll_chain_max_writes"] = maxChain
	for _, cfg := range []Config{{MaxSize: 1, MaxFiles: 4}, {MaxSize: 1, MaxFiles: 12}, {MaxSize: 1, MaxFiles: 30}} {
		for _, pat := range [][]int{{1}, {1, 0}} {
			for n := 1; n <= maxChain; n++ {
				idx++
				if !c.Mine(idx) {
					continue
				}
				if c.Expired() {
					c.R.Cap("time budget reached before all roll chains were explored")
					c.R.States = c.R.Transitions
					return
				}
				h := make([]int, n)
				for i := range h {
					h[i] = pat[i%len(pat)]
				}
				one(c, root, cfg, h, false, perSig)
			}
		}
	}
	c.R.States = c.R.Transitions
	c.R.Traces = c.R.Evaluations
	c.R.Sample(map[string]interface{}{"config": configs()[4], "history": []string{wops[1].String(), wops[3].String(), wops[6].String()}, "note": "every query on the resulting directory, then every cut byte"})
}

func replay(c *props.Ctx, raw json.RawMessage) (bool, string) {
	var d replayDoc
	if err := json.Unmarshal(raw, &d); err != nil {
		return false, err.Error()
	}
	root, _ := os.MkdirTemp(scratchRoot(), "verif-c17r-")
	defer os.RemoveAll(root)
	cc := &props.Ctx{R: report.New("C17", "quick", 0, 1)}
	one(cc, root, d.Cfg, d.Hist, d.Cuts, map[string]int{})
	if cc.R.NViolations() > 0 {
		return true, cc.R.Violations[0].What
	}
	return false, ""
}

func init() {
	props.Register(&props.Prop{ID: "C17", Run: run, Replay: replay})
}

// resNames are the two resources written: legal names (no '|', no line break) that differ only in surrounding
// white space, so that "read back unchanged" and "by resource" are checked on names a parser could normalise.
var resNames = []string{" A", "A\t"}
