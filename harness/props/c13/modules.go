package c13

import (
	"errors"
	"fmt"
	"reflect"
	"sort"

	sentinel "github.com/alibaba/sentinel-golang/api"
	"github.com/alibaba/sentinel-golang/core/base"
	cb "github.com/alibaba/sentinel-golang/core/circuitbreaker"
	"github.com/alibaba/sentinel-golang/core/flow"
	"github.com/alibaba/sentinel-golang/core/hotspot"
	"github.com/alibaba/sentinel-golang/core/isolation"
	"github.com/alibaba/sentinel-golang/core/outlier"
	"github.com/alibaba/sentinel-golang/core/stat"
	"github.com/alibaba/sentinel-golang/core/system"

	"verifharness/env"
)

var probeSeq int

func resetExtra() {
	_ = outlier.ClearRules()
	outlier.VerifResetRuntime() // node breakers, recyclers, retryers of earlier histories
	probeSeq = 0
}

// olChain: a slot chain with the outlier slots (they are not part of the default chain).
var olChain = func() *base.SlotChain {
	sc := base.NewSlotChain()
	sc.AddStatPrepareSlot(stat.DefaultResourceNodePrepareSlot)
	sc.AddRuleCheckSlot(outlier.DefaultSlot)
	sc.AddStatSlot(stat.DefaultSlot)
	sc.AddStatSlot(outlier.DefaultMetricStatSlot)
	return sc
}()

func trig(blk *base.BlockError, id func(base.SentinelRule) string) string {
	if blk == nil {
		return "pass"
	}
	if blk.TriggeredRule() == nil {
		return "blocked:" + blk.BlockType().String()
	}
	return "blocked-by:" + id(blk.TriggeredRule())
}

// listsFor builds the standard catalogue of lists: va = valid specs on resource a (3),
// vb = one valid spec on b, inv = invalid specs on a, nilIdx = the nil spec.
func listsFor(va []int, vb int, inv []int, nilIdx int) [][]int {
	l := [][]int{
		{}, {va[0]}, {va[1]}, {va[0], va[1]}, {va[1], va[0]}, {va[0], va[1], va[2]}, {va[2], va[0]},
		{vb}, {va[0], vb}, {vb, va[1]},
		{nilIdx}, {va[0], nilIdx}, {nilIdx, va[2]},
		{va[0], va[0]}, {va[2], va[2], va[0]}, // the same rule twice: two rules in force, each with state of its own
	}
	for _, k := range inv {
		l = append(l, []int{k, va[2]}, []int{k})
	}
	return l
}

// label identifies a rule returned by a getter by its CONTENT: the label of the catalogue entry whose
// freshly built rule prints the same (every field), so that a getter which reports a rule with the
// right id but stale fields is noticed. id is the fallback for rules outside the catalogue.
func label(specs []spec, printed, id string) string {
	for _, sp := range specs {
		if sp.Nil {
			continue
		}
		if allFields(sp.mk()) == printed {
			return sp.ID
		}
	}
	return id + "?fields-differ-from-every-catalogue-rule:" + printed
}

// allFields prints every field of the rule a pointer points to (the rules' own String methods leave
// some fields out).
func allFields(p interface{}) string {
	v := reflect.ValueOf(p)
	if v.Kind() == reflect.Ptr && !v.IsNil() {
		v = v.Elem()
	}
	return fmt.Sprintf("%+v", v.Interface())
}

func modules() []*module {
	return []*module{flowModule(), isolationModule(), hotspotModule(), breakerModule(), systemModule(), outlierModule()}
}

// ---------------- flow ----------------

func flowModule() *module {
	mk := func(id, res string, f func(r *flow.Rule)) spec {
		return spec{ID: id, Res: res, mk: func() interface{} {
			r := &flow.Rule{ID: id, Resource: res, Threshold: 0}
			f(r)
			return r
		}}
	}
	specs := []spec{
		mk("a5", "a", func(r *flow.Rule) { r.Threshold = 5 }),
		mk("a0", "a", func(r *flow.Rule) {}),
		mk("a50warm", "a", func(r *flow.Rule) {
			r.Threshold = 50
			r.TokenCalculateStrategy = flow.WarmUp
			r.WarmUpPeriodSec = 1 // cold factor left 0: the constructor substitutes the default
		}),
		mk("b0", "b", func(r *flow.Rule) {}),
		mk("inv-negThreshold", "a", func(r *flow.Rule) { r.Threshold = -1 }),
		mk("inv-negTokenCalc", "a", func(r *flow.Rule) { r.TokenCalculateStrategy = -1 }),
		mk("inv-negControl", "a", func(r *flow.Rule) { r.ControlBehavior = -1 }),
		mk("inv-relation", "a", func(r *flow.Rule) { r.RelationStrategy = 2 }),
		mk("inv-assocNoRef", "a", func(r *flow.Rule) { r.RelationStrategy = flow.AssociatedResource }),
		mk("inv-warmNoPeriod", "a", func(r *flow.Rule) { r.TokenCalculateStrategy = flow.WarmUp }),
		mk("inv-warmCold1", "a", func(r *flow.Rule) {
			r.TokenCalculateStrategy = flow.WarmUp
			r.WarmUpPeriodSec = 1
			r.WarmUpColdFactor = 1
		}),
		mk("inv-memAdaptive", "a", func(r *flow.Rule) { r.TokenCalculateStrategy = flow.MemoryAdaptive }),
		{ID: "nil", Nil: true, mk: func() interface{} { return (*flow.Rule)(nil) }},
		// three rules that differ in ONE field only (and carry the same rule id): a reload from one to
		// another must replace the enforced rule and what the getters report
		{ID: "aMem", Res: "a", mk: func() interface{} {
			return &flow.Rule{ID: "m", Resource: "a", TokenCalculateStrategy: flow.MemoryAdaptive, LowMemUsageThreshold: 5, HighMemUsageThreshold: 4, MemLowWaterMarkBytes: 1024, MemHighWaterMarkBytes: 2048}
		}},
		{ID: "aMemHi", Res: "a", mk: func() interface{} {
			return &flow.Rule{ID: "m", Resource: "a", TokenCalculateStrategy: flow.MemoryAdaptive, LowMemUsageThreshold: 5, HighMemUsageThreshold: 4, MemLowWaterMarkBytes: 1024, MemHighWaterMarkBytes: 4096}
		}},
		{ID: "aMemLo", Res: "a", mk: func() interface{} {
			return &flow.Rule{ID: "m", Resource: "a", TokenCalculateStrategy: flow.MemoryAdaptive, LowMemUsageThreshold: 5, HighMemUsageThreshold: 4, MemLowWaterMarkBytes: 512, MemHighWaterMarkBytes: 2048}
		}},
		{ID: "a5queue", Res: "a", mk: func() interface{} { return &flow.Rule{ID: "a5", Resource: "a", Threshold: 5, MaxQueueingTimeMs: 7} }},
		{ID: "a5interval", Res: "a", mk: func() interface{} { return &flow.Rule{ID: "a5", Resource: "a", Threshold: 5, StatIntervalInMs: 2000} }},
		{ID: "a5ref", Res: "a", mk: func() interface{} { return &flow.Rule{ID: "a5", Resource: "a", Threshold: 5, RefResource: "zz"} }},
		// a warm-up rule with the cold factor left unset (0) and the same rule with an explicit factor of 10
		{ID: "a50warm10", Res: "a", mk: func() interface{} {
			return &flow.Rule{ID: "a50warm", Resource: "a", Threshold: 50, TokenCalculateStrategy: flow.WarmUp, WarmUpPeriodSec: 1, WarmUpColdFactor: 10}
		}},
		// a memory-adaptive throttling rule (it needs no statistic of its own): 5 tokens per second, no queueing
		{ID: "aMemQueue", Res: "a", mk: func() interface{} {
			return &flow.Rule{ID: "mq", Resource: "a", TokenCalculateStrategy: flow.MemoryAdaptive, ControlBehavior: flow.Throttling, LowMemUsageThreshold: 5, HighMemUsageThreshold: 4, MemLowWaterMarkBytes: 1024, MemHighWaterMarkBytes: 2048}
		}},
	}
	conv := func(rs []interface{}) []*flow.Rule {
		out := make([]*flow.Rule, 0, len(rs))
		for _, r := range rs {
			out = append(out, r.(*flow.Rule))
		}
		return out
	}
	ids := func(rs []flow.Rule) []string {
		out := []string{}
		for i := range rs {
			out = append(out, label(specs, allFields(&rs[i]), rs[i].ID))
		}
		return out
	}
	thr := map[string]float64{"a5": 5, "a0": 0, "a50warm": 50, "b0": 0, "aMem": 5, "aMemHi": 5, "aMemLo": 5, "a5queue": 5, "a5interval": 5, "a5ref": 5, "a50warm10": 5, "aMemQueue": 5} // a50warm10: cold start, 50/10
	return &module{
		Name: "flow", Specs: specs, Resources: []string{"a", "b"},
		Lists:    append(listsFor([]int{0, 1, 2}, 3, []int{4, 5, 6, 7, 8, 9, 10, 11}, 12), []int{13}, []int{14}, []int{15}, []int{16}, []int{17}, []int{18}, []int{19}, []int{2}, []int{20}),
		Load:     func(rs []interface{}) (bool, error) { return flow.LoadRules(conv(rs)) },
		LoadRes:  func(res string, rs []interface{}) (bool, error) { return flow.LoadRulesOfResource(res, conv(rs)) },
		Clear:    flow.ClearRules,
		ClearRes: flow.ClearRulesOfResource,
		Get:      func() []string { return ids(flow.GetRules()) },
		GetRes:   func(res string) []string { return ids(flow.GetRulesOfResource(res)) },
		IsValid:  func(r interface{}) bool { return flow.IsValidRule(r.(*flow.Rule)) == nil },
		Probe: func(res string, enforced []string) (string, string) {
			got, want := "", ""
			for _, b := range []uint32{1, 6, 51} {
				env.Clock.AdvanceMs(11000) // fresh statistic windows
				e, blk := sentinel.Entry(res, sentinel.WithBatchCount(b))
				if e != nil {
					e.Exit()
				}
				got += trig(blk, func(r base.SentinelRule) string { return label(specs, allFields(r.(*flow.Rule)), r.(*flow.Rule).ID) }) + ","
				w := "pass"
				for _, id := range enforced {
					t := thr[id]
					if id == "a50warm" {
						t = 50.0 / 3 // cold start of the warm-up rule: threshold / default cold factor
					}
					if float64(b) > t {
						w = "blocked-by:" + id
						if id == "aMemQueue" {
							w = "blocked:" + base.BlockTypeFlow.String() // a throttling rule refuses an oversize batch without naming itself
						}
						break
					}
				}
				want += w + ","
			}
			// two requests of 3 tokens at one instant: the second one is judged against what the first one left in the
			// rule's statistic (a rule bound to a statistic that records nothing would admit both)
			env.Clock.AdvanceMs(11000)
			seen := float64(0)
			for k := 0; k < 2; k++ {
				e, blk := sentinel.Entry(res, sentinel.WithBatchCount(3))
				if e != nil {
					e.Exit()
				}
				got += trig(blk, func(r base.SentinelRule) string { return label(specs, allFields(r.(*flow.Rule)), r.(*flow.Rule).ID) }) + ","
				w := "pass"
				for _, id := range enforced {
					t := thr[id]
					if id == "a50warm" {
						t = 50.0 / 3
					}
					if seen+3 > t {
						w = "blocked-by:" + id
						break
					}
				}
				if w == "pass" {
					seen += 3
				}
				want += w + ","
			}
			return got, want
		},
	}
}

// ---------------- isolation ----------------

func isolationModule() *module {
	mk := func(id, res string, n uint32, mt isolation.MetricType) spec {
		return spec{ID: id, Res: res, mk: func() interface{} {
			return &isolation.Rule{ID: id, Resource: res, MetricType: mt, Threshold: n}
		}}
	}
	specs := []spec{
		mk("a2", "a", 2, isolation.Concurrency), mk("a1", "a", 1, isolation.Concurrency), mk("a3", "a", 3, isolation.Concurrency),
		mk("b1", "b", 1, isolation.Concurrency),
		mk("inv-zero", "a", 0, isolation.Concurrency), mk("inv-metricType", "a", 1, 1),
		{ID: "nil", Nil: true, mk: func() interface{} { return (*isolation.Rule)(nil) }},
	}
	conv := func(rs []interface{}) []*isolation.Rule {
		out := make([]*isolation.Rule, 0, len(rs))
		for _, r := range rs {
			out = append(out, r.(*isolation.Rule))
		}
		return out
	}
	ids := func(rs []isolation.Rule) []string {
		out := []string{}
		for i := range rs {
			out = append(out, label(specs, allFields(&rs[i]), rs[i].ID))
		}
		return out
	}
	thr := map[string]uint32{"a2": 2, "a1": 1, "a3": 3, "b1": 1}
	return &module{
		Name: "isolation", Specs: specs, Resources: []string{"a", "b"},
		Lists:    listsFor([]int{0, 1, 2}, 3, []int{4, 5}, 6),
		Load:     func(rs []interface{}) (bool, error) { return isolation.LoadRules(conv(rs)) },
		LoadRes:  func(res string, rs []interface{}) (bool, error) { return isolation.LoadRulesOfResource(res, conv(rs)) },
		Clear:    isolation.ClearRules,
		ClearRes: isolation.ClearRulesOfResource,
		Get:      func() []string { return ids(isolation.GetRules()) },
		GetRes:   func(res string) []string { return ids(isolation.GetRulesOfResource(res)) },
		IsValid:  func(r interface{}) bool { return isolation.IsValidRule(r.(*isolation.Rule)) == nil },
		Probe: func(res string, enforced []string) (string, string) {
			got, want := "", ""
			for _, b := range []uint32{1, 2, 3, 4} {
				e, blk := sentinel.Entry(res, sentinel.WithBatchCount(b))
				if e != nil {
					e.Exit()
				}
				got += trig(blk, func(r base.SentinelRule) string {
					return label(specs, allFields(r.(*isolation.Rule)), r.(*isolation.Rule).ID)
				}) + ","
				w := "pass"
				for _, id := range enforced {
					if b > thr[id] {
						w = "blocked-by:" + id
						break
					}
				}
				want += w + ","
			}
			return got, want
		},
	}
}

// ---------------- hotspot ----------------

func hotspotModule() *module {
	mk := func(id, res string, f func(r *hotspot.Rule)) spec {
		return spec{ID: id, Res: res, mk: func() interface{} {
			r := &hotspot.Rule{ID: id, Resource: res, MetricType: hotspot.QPS, ControlBehavior: hotspot.Reject, DurationInSec: 1}
			f(r)
			return r
		}}
	}
	specs := []spec{
		mk("a5", "a", func(r *hotspot.Rule) { r.Threshold = 5 }),
		mk("a0", "a", func(r *hotspot.Rule) {}),
		mk("a50", "a", func(r *hotspot.Rule) { r.Threshold = 50 }),
		mk("b0", "b", func(r *hotspot.Rule) {}),
		mk("inv-negThreshold", "a", func(r *hotspot.Rule) { r.Threshold = -1 }),
		mk("inv-metricType", "a", func(r *hotspot.Rule) { r.MetricType = -1 }),
		mk("inv-control", "a", func(r *hotspot.Rule) { r.ControlBehavior = -1 }),
		mk("inv-duration", "a", func(r *hotspot.Rule) { r.DurationInSec = 0 }),
		mk("inv-indexAndKey", "a", func(r *hotspot.Rule) { r.ParamIndex = 1; r.ParamKey = "k" }),
		mk("inv-negBurst", "a", func(r *hotspot.Rule) { r.BurstCount = -1 }),
		mk("inv-negQueue", "a", func(r *hotspot.Rule) { r.ControlBehavior = hotspot.Throttling; r.MaxQueueingTimeMs = -1 }),
		{ID: "nil", Nil: true, mk: func() interface{} { return (*hotspot.Rule)(nil) }},
		// a5 with ONE other field changed (same rule id)
		{ID: "a5cap", Res: "a", mk: func() interface{} {
			return &hotspot.Rule{ID: "a5", Resource: "a", MetricType: hotspot.QPS, ControlBehavior: hotspot.Reject, DurationInSec: 1, Threshold: 5, ParamsMaxCapacity: 7}
		}},
		{ID: "a5burst", Res: "a", mk: func() interface{} {
			return &hotspot.Rule{ID: "a5", Resource: "a", MetricType: hotspot.QPS, ControlBehavior: hotspot.Reject, DurationInSec: 1, Threshold: 5, BurstCount: 1}
		}},
		{ID: "a5dur", Res: "a", mk: func() interface{} {
			return &hotspot.Rule{ID: "a5", Resource: "a", MetricType: hotspot.QPS, ControlBehavior: hotspot.Reject, DurationInSec: 2, Threshold: 5}
		}},
		// two rules that differ only in the threshold of one specific item (same keys)
		{ID: "a5vip1", Res: "a", mk: func() interface{} {
			return &hotspot.Rule{ID: "a5", Resource: "a", MetricType: hotspot.QPS, ControlBehavior: hotspot.Reject, DurationInSec: 1, Threshold: 5, SpecificItems: map[interface{}]int64{"vip": 1}}
		}},
		{ID: "a5vip2", Res: "a", mk: func() interface{} {
			return &hotspot.Rule{ID: "a5", Resource: "a", MetricType: hotspot.QPS, ControlBehavior: hotspot.Reject, DurationInSec: 1, Threshold: 5, SpecificItems: map[interface{}]int64{"vip": 2}}
		}},
	}
	conv := func(rs []interface{}) []*hotspot.Rule {
		out := make([]*hotspot.Rule, 0, len(rs))
		for _, r := range rs {
			out = append(out, r.(*hotspot.Rule))
		}
		return out
	}
	ids := func(rs []hotspot.Rule) []string {
		out := []string{}
		for i := range rs {
			out = append(out, label(specs, allFields(&rs[i]), rs[i].ID))
		}
		return out
	}
	thr := map[string]int64{"a5": 5, "a0": 0, "a50": 50, "b0": 0, "a5cap": 5, "a5burst": 6, "a5dur": 5, "a5vip1": 5, "a5vip2": 5}
	return &module{
		Name: "hotspot", Specs: specs, Resources: []string{"a", "b"},
		Lists:    append(listsFor([]int{0, 1, 2}, 3, []int{4, 5, 6, 7, 8, 9, 10}, 11), []int{12}, []int{13}, []int{14}, []int{15}, []int{16}),
		Load:     func(rs []interface{}) (bool, error) { return hotspot.LoadRules(conv(rs)) },
		LoadRes:  func(res string, rs []interface{}) (bool, error) { return hotspot.LoadRulesOfResource(res, conv(rs)) },
		Clear:    hotspot.ClearRules,
		ClearRes: hotspot.ClearRulesOfResource,
		Get:      func() []string { return ids(hotspot.GetRules()) },
		GetRes:   func(res string) []string { return ids(hotspot.GetRulesOfResource(res)) },
		IsValid:  func(r interface{}) bool { return hotspot.IsValidRule(r.(*hotspot.Rule)) == nil },
		Probe: func(res string, enforced []string) (string, string) {
			got, want := "", ""
			for _, b := range []uint32{1, 3, 6, 51} { // 3: more than half of 5, two rules sharing one bucket would run dry
				probeSeq++
				// a value never seen before: the rule's per-value state is fresh
				e, blk := sentinel.Entry(res, sentinel.WithBatchCount(b), sentinel.WithArgs(fmt.Sprintf("v%d", probeSeq), "x"))
				if e != nil {
					e.Exit()
				}
				got += trig(blk, func(r base.SentinelRule) string {
					return label(specs, allFields(r.(*hotspot.Rule)), r.(*hotspot.Rule).ID)
				}) + ","
				w := "pass"
				for _, id := range enforced {
					if int64(b) > thr[id] {
						w = "blocked-by:" + id
						break
					}
				}
				want += w + ","
			}
			return got, want
		},
	}
}

// ---------------- circuit breaker ----------------

var probeErr = errors.New("probe")

func breakerModule() *module {
	mk := func(id, res string, f func(r *cb.Rule)) spec {
		return spec{ID: id, Res: res, mk: func() interface{} {
			r := &cb.Rule{Id: id, Resource: res, Strategy: cb.ErrorCount, RetryTimeoutMs: 1000000, MinRequestAmount: 1, StatIntervalMs: 1000, Threshold: 1}
			f(r)
			return r
		}}
	}
	mk2 := func(lbl string, f func(r *cb.Rule)) spec {
		sp := mk("aCount", "a", f)
		sp.ID = lbl
		return sp
	}
	specs := []spec{
		mk("aCount", "a", func(r *cb.Rule) {}),
		mk("aRatio", "a", func(r *cb.Rule) { r.Strategy = cb.ErrorRatio; r.Threshold = 0.5 }),
		mk("aSlow", "a", func(r *cb.Rule) { r.Strategy = cb.SlowRequestRatio; r.Threshold = 1; r.MaxAllowedRtMs = 5 }),
		mk("bCount", "b", func(r *cb.Rule) {}),
		mk("inv-interval0", "a", func(r *cb.Rule) { r.StatIntervalMs = 0 }),
		mk("inv-retry0", "a", func(r *cb.Rule) { r.RetryTimeoutMs = 0 }),
		mk("inv-negThreshold", "a", func(r *cb.Rule) { r.Threshold = -1 }),
		mk("inv-slowRatio2", "a", func(r *cb.Rule) { r.Strategy = cb.SlowRequestRatio; r.Threshold = 2; r.MaxAllowedRtMs = 5 }),
		mk("inv-errRatio2", "a", func(r *cb.Rule) { r.Strategy = cb.ErrorRatio; r.Threshold = 2 }),
		{ID: "nil", Nil: true, mk: func() interface{} { return (*cb.Rule)(nil) }},
		// aCount with ONE other field changed (same rule id)
		mk2("aCountProbe", func(r *cb.Rule) { r.ProbeNum = 2 }),
		mk2("aCountRetry", func(r *cb.Rule) { r.RetryTimeoutMs = 999999 }),
		// (not MaxAllowedRtMs: for an error-count rule it has no effect and the module deliberately
		// treats such rules as equal, keeping the old breaker and its rule object)
		mk2("aCountBuckets", func(r *cb.Rule) { r.StatSlidingWindowBucketCount = 2 }),
		// a bucket count that does not divide the interval (1000 ms): valid; the breaker uses one bucket, the
		// rule stays what was loaded
		mk2("aCountOddBuckets", func(r *cb.Rule) { r.StatSlidingWindowBucketCount = 3 }),
	}
	conv := func(rs []interface{}) []*cb.Rule {
		out := make([]*cb.Rule, 0, len(rs))
		for _, r := range rs {
			out = append(out, r.(*cb.Rule))
		}
		return out
	}
	ids := func(rs []cb.Rule) []string {
		out := []string{}
		for i := range rs {
			out = append(out, label(specs, allFields(&rs[i]), rs[i].Id))
		}
		return out
	}
	id := func(r base.SentinelRule) string { return label(specs, allFields(r.(*cb.Rule)), r.(*cb.Rule).Id) }
	return &module{
		Name: "circuitbreaker", Specs: specs, Resources: []string{"a", "b"},
		Lists:    append(listsFor([]int{0, 1, 2}, 3, []int{4, 5, 6, 7, 8}, 9), []int{10}, []int{11}, []int{12}, []int{13}),
		Load:     func(rs []interface{}) (bool, error) { return cb.LoadRules(conv(rs)) },
		LoadRes:  func(res string, rs []interface{}) (bool, error) { return cb.LoadRulesOfResource(res, conv(rs)) },
		Clear:    cb.ClearRules,
		ClearRes: cb.ClearRulesOfResource,
		Get:      func() []string { return ids(cb.GetRules()) },
		GetRes:   func(res string) []string { return ids(cb.GetRulesOfResource(res)) },
		IsValid:  func(r interface{}) bool { return cb.IsValidRule(r.(*cb.Rule)) == nil },
		Probe: func(res string, enforced []string) (string, string) {
			// one slow, failing request trips every enforced breaker of the catalogue; the next
			// two requests (the second while the first is still in flight) show who rejects
			e1, blk1 := sentinel.Entry(res)
			got := trig(blk1, id) + ","
			if e1 != nil {
				env.Clock.AdvanceMs(10)
				e1.Exit(base.WithError(probeErr))
			}
			e2, blk2 := sentinel.Entry(res)
			got += trig(blk2, id) + ","
			e3, blk3 := sentinel.Entry(res)
			got += trig(blk3, id) + ","
			if e3 != nil {
				e3.Exit()
			}
			if e2 != nil {
				e2.Exit()
			}
			want := "pass,pass,pass,"
			if len(enforced) > 0 {
				want = "pass,blocked-by:" + enforced[0] + ",blocked-by:" + enforced[0] + ","
			}
			return got, want
		},
	}
}

// ---------------- system ----------------

func systemModule() *module {
	mk := func(id string, mt system.MetricType, trigger float64) spec {
		return spec{ID: id, Res: "sys", mk: func() interface{} {
			return &system.Rule{ID: id, MetricType: mt, TriggerCount: trigger, Strategy: system.NoAdaptive}
		}}
	}
	specs := []spec{
		mk("conc0", system.Concurrency, 0), mk("qps0", system.InboundQPS, 0), mk("rt1000", system.AvgRT, 1000),
		mk("load1000", system.Load, 1000),
		mk("inv-negTrigger", system.Concurrency, -1), mk("inv-metricType", 99, 0), mk("inv-cpu", system.CpuUsage, 1.5),
		{ID: "nil", Nil: true, mk: func() interface{} { return (*system.Rule)(nil) }},
		mk("conc5", system.Concurrency, 5), // a second rule of a metric type that is already present
	}
	conv := func(rs []interface{}) []*system.Rule {
		out := make([]*system.Rule, 0, len(rs))
		for _, r := range rs {
			out = append(out, r.(*system.Rule))
		}
		return out
	}
	blocking := map[string]bool{"conc0": true, "qps0": true}
	return &module{
		Name: "system", Specs: specs, Resources: []string{"sys"},
		Lists: [][]int{{}, {0}, {2}, {0, 2}, {2, 0}, {2, 3}, {1, 2, 3}, {3}, {7}, {2, 7}, {7, 0}, {4, 2}, {4}, {5, 2}, {5}, {6, 2}, {6}, {0, 8}, {8, 0}, {8}, {8, 2, 0}},
		Load:  func(rs []interface{}) (bool, error) { return system.LoadRules(conv(rs)) },
		Clear: system.ClearRules,
		Get: func() []string {
			out := []string{}
			for _, r := range system.GetRules() {
				out = append(out, r.ID)
			}
			return out
		},
		IsValid: func(r interface{}) bool { return system.IsValidSystemRule(r.(*system.Rule)) == nil },
		Probe: func(res string, enforced []string) (string, string) {
			e, blk := sentinel.Entry("in", sentinel.WithTrafficType(base.Inbound))
			if e != nil {
				e.Exit()
			}
			got := "pass"
			if blk != nil {
				got = "blocked"
				if r, ok := blk.TriggeredRule().(*system.Rule); !ok || !blocking[r.ID] {
					got = "blocked-by-rule-that-is-not-violated:" + fmt.Sprint(blk.TriggeredRule())
				} else {
					found := false
					for _, id := range enforced {
						if id == r.ID {
							found = true
						}
					}
					if !found {
						got = "blocked-by-rule-not-in-force:" + r.ID
					}
				}
			}
			want := "pass"
			for _, id := range enforced {
				if blocking[id] {
					want = "blocked"
				}
			}
			// an outbound request is never touched
			e2, blk2 := sentinel.Entry("out")
			if e2 != nil {
				e2.Exit()
			}
			if blk2 != nil {
				got += "+outbound-blocked"
			}
			return got, want
		},
	}
}

// ---------------- outlier ----------------

func outlierModule() *module {
	mk := func(id, res string, f func(r *outlier.Rule)) spec {
		return spec{ID: id, Res: res, mk: func() interface{} {
			r := &outlier.Rule{Rule: &cb.Rule{Id: id, Resource: res, Strategy: cb.ErrorCount, RetryTimeoutMs: 1000, MinRequestAmount: 1, StatIntervalMs: 1000, Threshold: 1},
				MaxEjectionPercent: 0.5, RecoveryIntervalMs: 1000, MaxRecoveryAttempts: 3}
			f(r)
			return r
		}}
	}
	specs := []spec{
		mk("a50", "a", func(r *outlier.Rule) {}),
		mk("a30", "a", func(r *outlier.Rule) { r.MaxEjectionPercent = 0.3; r.Rule.Threshold = 2 }),
		mk("b50", "b", func(r *outlier.Rule) {}),
		mk("inv-negPercent", "a", func(r *outlier.Rule) { r.MaxEjectionPercent = -0.1 }),
		mk("inv-bigPercent", "a", func(r *outlier.Rule) { r.MaxEjectionPercent = 1.5 }),
		mk("inv-breakerRule", "a", func(r *outlier.Rule) { r.Rule.RetryTimeoutMs = 0 }),
		{ID: "inv-noBreakerRule", Res: "a", mk: func() interface{} { return &outlier.Rule{MaxEjectionPercent: 0.5} }},
		{ID: "nil", Nil: true, mk: func() interface{} { return (*outlier.Rule)(nil) }},
	}
	conv := func(rs []interface{}) []*outlier.Rule {
		out := make([]*outlier.Rule, 0, len(rs))
		for _, r := range rs {
			out = append(out, r.(*outlier.Rule))
		}
		return out
	}
	return &module{
		Name: "outlier", Specs: specs, Resources: []string{"a", "b"}, OneRule: true,
		Lists: [][]int{{}, {0}, {1}, {2}, {0, 2}, {2, 1}, {3}, {3, 2}, {4}, {5}, {5, 2}, {6}, {6, 2}, {7}, {0, 7}},
		Load:  func(rs []interface{}) (bool, error) { return outlier.LoadRules(conv(rs)) },
		LoadRes: func(res string, rs []interface{}) (bool, error) {
			return outlier.LoadRuleOfResource(res, rs[0].(*outlier.Rule))
		},
		Clear:    outlier.ClearRules,
		ClearRes: outlier.ClearRuleOfResource,
		Get: func() []string {
			out := []string{}
			for _, r := range outlier.GetRules() {
				if r.Rule != nil {
					out = append(out, r.Id)
				} else {
					out = append(out, "<no breaker rule>")
				}
			}
			return out
		},
		IsValid: func(r interface{}) bool {
			x := r.(*outlier.Rule)
			if x == nil || x.Rule == nil {
				return false // IsValidRule itself dereferences the embedded breaker rule
			}
			return outlier.IsValidRule(x) == nil && cb.IsValidRule(x.Rule) == nil
		},
		// what governs traffic is, per known node, a breaker built from the rule in force: one successful request to
		// a node of the resource (which makes it known while a rule is in force), then every node breaker of the
		// resource must be bound to the rule of the most recent load - and there are none without a rule
		Touch: func(res string) {
			if e, blk := sentinel.Entry(res, sentinel.WithSlotChain(olChain)); blk == nil {
				sentinel.TraceCallee(e, "node-of-"+res)
				e.Exit()
			}
			outlier.VerifBarrier()
		},
		Probe: func(res string, enforced []string) (string, string) {
			var got []string
			for addr, b := range outlier.VerifNodes(res) {
				// identified by content (a breaker whose parameters are unchanged is rightly kept, id and all)
				id := "<nil rule>"
				if r := b.BoundRule(); r != nil {
					id = fmt.Sprintf("error-count threshold %v", r.Threshold)
				}
				got = append(got, addr+" governed by "+id)
			}
			sort.Strings(got)
			want := []string{}
			if len(enforced) == 1 {
				want = append(want, "node-of-"+res+" governed by "+fmt.Sprintf("error-count threshold %v", map[string]float64{"a50": 1, "a30": 2, "b50": 1}[enforced[0]]))
			}
			return fmt.Sprint(got), fmt.Sprint(want)
		},
	}
}
