// Package c13: only valid, latest-loaded rules are in force; reported rules equal enforced.
//
// Engine B, one scenario per rule module (flow, isolation, hotspot, circuit breaker, system,
// outlier): BFS over all sequences (to a depth bound) of whole-set loads, per-resource loads,
// clears and identical reloads over a catalogue of rule lists mixing valid rules, one invalid
// variant per validity clause and nil elements (fresh objects on every call). After every
// operation the module's getters are compared with ref/rules ("valid rules of the most recent
// load per resource, in order", validity = the module's own exported IsValidRule); after the
// last operation of every path the resources are probed with traffic chosen so that every
// rule - in particular an invalid one - would show if it were enforced.
package c13

import (
	"encoding/json"
	"fmt"
	"sort"
	"strings"

	"verifharness/engine/seq"
	"verifharness/env"
	"verifharness/props"
	"verifharness/report"
)

// spec is one catalogue entry: a constructor of a FRESH rule object (or a typed nil).
type spec struct {
	ID  string
	Res string
	Nil bool
	mk  func() interface{}
}

// module adapts one rule manager.
type module struct {
	Name  string
	Specs []spec
	Lists [][]int // catalogue of rule lists (indices into Specs)
	// typed calls; rules are fresh objects produced by spec.mk
	Load     func(rules []interface{}) (bool, error)
	LoadRes  func(res string, rules []interface{}) (bool, error)
	Clear    func() error
	ClearRes func(res string) error
	Get      func() []string           // IDs in force, any order across resources
	GetRes   func(res string) []string // IDs in force for res, in order (nil func = unsupported)
	IsValid  func(r interface{}) bool
	// Probe drives traffic on res and returns what it observed plus what the enforced list
	// (IDs, in order) should have produced.
	Probe func(res string, enforced []string) (observed, expected string)
	// Touch (optional) is part of every operation: traffic that makes the module build per-resource run-time
	// state from the rules in force (it must be replayed with the history, unlike the probe)
	Touch     func(res string)
	Resources []string
	OneRule   bool // at most one rule per resource (outlier): later entries of a list replace earlier ones
}

type opDef struct {
	kind int // 0 load list, 1 load list of resource, 2 clear, 3 clear resource, 4 identical reload
	list int
	res  string
}

func (m *module) opName(o opDef) string {
	ln := func(i int) string {
		var p []string
		for _, s := range m.Lists[i] {
			p = append(p, m.Specs[s].ID)
		}
		return "[" + strings.Join(p, ",") + "]"
	}
	switch o.kind {
	case 0:
		return "LoadRules(" + ln(o.list) + ")"
	case 1:
		return fmt.Sprintf("LoadRulesOfResource(%s,%s)", o.res, ln(o.list))
	case 2:
		return "ClearRules()"
	case 3:
		return fmt.Sprintf("ClearRulesOfResource(%s)", o.res)
	}
	return "reload-identical"
}

type scen struct {
	m     *module
	ops   []opDef
	model map[string][]int // resource -> valid spec indices of the most recent load, in order
	last  *opDef           // last load operation (for the identical reload)
	lastO opDef
}

func (s *scen) Name() string        { return s.m.Name }
func (s *scen) NumOps() int         { return len(s.ops) }
func (s *scen) OpName(i int) string { return s.m.opName(s.ops[i]) }
func (s *scen) Enabled(i int) bool {
	if s.ops[i].kind == 4 {
		return s.last != nil
	}
	return true
}

func (s *scen) Reset() {
	env.ResetAll(env.DefaultGeometry, 1700000000000)
	resetExtra()
	s.model = map[string][]int{}
	s.last = nil
}

func (s *scen) fresh(list int) []interface{} {
	var out []interface{}
	for _, si := range s.m.Lists[list] {
		out = append(out, s.m.Specs[si].mk())
	}
	return out
}

func (s *scen) validOf(list int, res string) []int {
	var out []int
	for _, si := range s.m.Lists[list] {
		sp := s.m.Specs[si]
		if sp.Nil || sp.Res != res {
			continue
		}
		if s.m.IsValid(sp.mk()) {
			if s.m.OneRule {
				out = out[:0]
			}
			out = append(out, si)
		}
	}
	return out
}

func (s *scen) Apply(i int) (obs string, viol string) {
	o := s.ops[i]
	if o.kind == 4 {
		o = s.lastO
	}
	var changed bool
	var err error
	func() {
		defer func() {
			if r := recover(); r != nil {
				viol = fmt.Sprintf("%s panicked: %v", s.OpName(i), r)
			}
		}()
		switch o.kind {
		case 0:
			changed, err = s.m.Load(s.fresh(o.list))
		case 1:
			changed, err = s.m.LoadRes(o.res, s.fresh(o.list))
		case 2:
			err = s.m.Clear()
		case 3:
			err = s.m.ClearRes(o.res)
		}
	}()
	if viol != "" {
		return "", viol
	}
	_ = err
	if s.ops[i].kind == 4 {
		if changed {
			return "", fmt.Sprintf("identical reload %s (fresh, field-for-field equal objects) reported 'changed'", s.m.opName(o))
		}
	} else {
		switch o.kind {
		case 0:
			for _, r := range s.m.Resources {
				s.model[r] = s.validOf(o.list, r)
			}
			s.last, s.lastO = &s.lastO, o
		case 1:
			s.model[o.res] = s.validOf(o.list, o.res)
			s.last, s.lastO = &s.lastO, o
		case 2:
			for _, r := range s.m.Resources {
				s.model[r] = nil
			}
			s.last = nil
		case 3:
			s.model[o.res] = nil
			s.last = nil
		}
	}
	if s.m.Touch != nil {
		for _, r := range s.m.Resources {
			s.m.Touch(r)
		}
	}
	// getters = model (a getter that panics on what a load left behind is reported, not a harness crash)
	defer func() {
		if r := recover(); r != nil {
			obs, viol = "", fmt.Sprintf("after %s: a rule getter panicked: %v", s.OpName(i), r)
		}
	}()
	var all []string
	for _, r := range s.m.Resources {
		want := s.ids(r)
		all = append(all, want...)
		if s.m.GetRes != nil {
			got := s.m.GetRes(r)
			if fmt.Sprint(got) != fmt.Sprint(want) {
				return "", fmt.Sprintf("after %s: getter reports %v for resource %s, the valid rules of the most recent load are %v", s.OpName(i), got, r, want)
			}
		}
	}
	got := s.m.Get()
	sort.Strings(got)
	sort.Strings(all)
	if fmt.Sprint(got) != fmt.Sprint(all) {
		return "", fmt.Sprintf("after %s: GetRules reports %v, the valid rules of the most recent loads are %v", s.OpName(i), got, all)
	}
	return fmt.Sprintf("%v", changed), ""
}

func (s *scen) ids(res string) []string {
	out := []string{}
	for _, si := range s.model[res] {
		out = append(out, s.m.Specs[si].ID)
	}
	return out
}

// Final probes every resource with traffic.
func (s *scen) Final() (obs string, viol string) {
	if s.m.Probe == nil {
		return "", ""
	}
	defer func() {
		if r := recover(); r != nil {
			viol = fmt.Sprintf("probing panicked: %v", r)
		}
	}()
	for _, r := range s.m.Resources {
		got, want := s.m.Probe(r, s.ids(r))
		obs += got + ";"
		if got != want {
			return obs, fmt.Sprintf("probe of resource %s observed %q, the enforced list %v must produce %q", r, got, s.ids(r), want)
		}
	}
	return obs, ""
}

func (s *scen) Key() string {
	var b strings.Builder
	for _, r := range s.m.Resources {
		fmt.Fprintf(&b, "%s=%v|", r, s.model[r])
	}
	if s.last != nil {
		fmt.Fprintf(&b, "last=%d,%d,%s", s.lastO.kind, s.lastO.list, s.lastO.res)
	}
	// implementation side: what the getters report (already compared) plus the raw cache is
	// observable only through the identical-reload answer, which depends on `last`.
	return b.String()
}

func (m *module) mkOps() []opDef {
	var ops []opDef
	for li := range m.Lists {
		ops = append(ops, opDef{kind: 0, list: li})
	}
	if m.LoadRes != nil {
		for _, r := range m.Resources {
			for li, l := range m.Lists {
				ok := true
				for _, si := range l {
					if !m.Specs[si].Nil && m.Specs[si].Res != r {
						ok = false
					}
				}
				if m.OneRule && len(l) != 1 {
					ok = false
				}
				if ok {
					ops = append(ops, opDef{kind: 1, list: li, res: r})
				}
			}
		}
	}
	ops = append(ops, opDef{kind: 2})
	if m.ClearRes != nil {
		for _, r := range m.Resources {
			ops = append(ops, opDef{kind: 3, res: r})
		}
	}
	ops = append(ops, opDef{kind: 4})
	return ops
}

func signature(mod, what string) string {
	switch {
	case strings.Contains(what, "panicked"):
		if strings.Contains(what, "nil") {
			return "C13:" + mod + ":load-panics-on-nil-element"
		}
		return "C13:" + mod + ":load-panics"
	case strings.Contains(what, "identical reload"):
		if strings.Contains(what, "[])") {
			return "C13:" + mod + ":identical-empty-reload-reported-changed"
		}
		return "C13:" + mod + ":identical-reload-reported-changed"
	case strings.Contains(what, "getter reports"), strings.Contains(what, "GetRules reports"):
		return "C13:" + mod + ":getter-differs-from-latest-valid"
	case strings.Contains(what, "probe of resource"):
		return "C13:" + mod + ":enforced-differs-from-latest-valid"
	}
	return "C13:" + mod + ":other"
}

type replayDoc struct {
	Module string   `json:"module"`
	Path   []int    `json:"path"`
	Ops    []string `json:"ops"`
}

func run(c *props.Ctx) {
	depth := 4
	if !c.Quick() {
		depth = 5
	}
	c.R.Bounds["depth"] = depth
	mods := modules()
	// shards: each module is split over NShards/len(mods) workers
	per := c.NShards / len(mods)
	if per < 1 {
		per = 1
	}
	for mi, m := range mods {
		sub, nsub := 0, 1
		if c.NShards > 1 {
			if c.Shard/per != mi {
				continue // shards beyond len(mods)*per stay idle
			}
			sub, nsub = c.Shard%per, per
		}
		s := &scen{m: m, ops: m.mkOps()}
		name := m.Name
		res := seq.Explore(s, seq.Options{Depth: depth, Deadline: c.Deadline, Classify: func(w string) string { return signature(name, w) }, Shard: sub, NShards: nsub, MaxStates: 2000000})
		c.R.States += int64(res.States)
		c.R.Transitions += res.Transitions
		c.R.Evaluations += res.Transitions
		c.R.Traces += res.Transitions
		for o := range res.Obs {
			c.R.Outcome(m.Name + "|" + o)
		}
		if res.CapHit != "" && res.CapHit != "violation limit" {
			c.R.Cap(m.Name + ": " + res.CapHit)
		}
		c.R.Sample(map[string]interface{}{"module": m.Name, "ops": len(s.ops), "states": res.States, "transitions": res.Transitions, "depth": res.Depth, "path": res.SamplePath})
		for _, v := range res.Violations {
			c.R.Violate(report.Violation{Signature: signature(m.Name, v.What), What: v.What, Scenario: m.Name + ": " + strings.Join(v.Ops, " "),
				Replay: replayDoc{Module: m.Name, Path: v.Path, Ops: v.Ops}})
		}
	}
}

func replay(c *props.Ctx, raw json.RawMessage) (bool, string) {
	var d replayDoc
	if err := json.Unmarshal(raw, &d); err != nil {
		return false, err.Error()
	}
	for _, m := range modules() {
		if m.Name == d.Module {
			s := &scen{m: m, ops: m.mkOps()}
			w := seq.Replay(s, d.Path)
			return w != "", w
		}
	}
	return false, "unknown module"
}

func init() {
	props.Register(&props.Prop{ID: "C13", Run: run, Replay: replay})
}
