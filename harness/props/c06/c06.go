// Package c06: hotspot concurrency rules cap the in-flight entries per argument value and
// conserve their per-value counters.
//
// Engine B: all histories (to a depth bound, <=4 live entries, pool-miss deviations <=1) of
// Entry(resource, value by index or attachment key) and Exit in any order, per rule
// configuration, against a per-value live-entry reference; the per-value counters are read
// through an accessor after every operation. Engine A: two/three threads Entry(v)->Exit.
package c06

import (
	"encoding/json"
	"errors"
	"fmt"
	"strings"

	sentinel "github.com/alibaba/sentinel-golang/api"
	"github.com/alibaba/sentinel-golang/core/base"
	"github.com/alibaba/sentinel-golang/core/hotspot"
	"github.com/alibaba/sentinel-golang/core/hotspot/cache"
	"github.com/alibaba/sentinel-golang/verifshim/vsched"
	vsync "github.com/alibaba/sentinel-golang/verifshim/vsync"

	"verifharness/chainx"
	"verifharness/engine/sched"
	"verifharness/engine/seq"
	"verifharness/env"
	"verifharness/props"
	"verifharness/report"
)

type RuleSpec struct {
	Threshold int64            `json:"threshold"`
	Specific  map[string]int64 `json:"specific,omitempty"`
	ByKey     bool             `json:"by_key"` // select the value by attachment key "k" instead of index 0
	Index     int              `json:"index"`
}

type Config struct {
	R1 RuleSpec  `json:"r1"`
	R3 *RuleSpec `json:"r3,omitempty"`
	// R1b is a second concurrency rule on r1 that selects the OTHER argument (the "decoy" every
	// request carries at index 1): an entry can pass R1 and then be blocked by R1b.
	R1b *RuleSpec `json:"r1b,omitempty"`
	// R1bFirst puts R1b in front of R1 in the loaded list
	R1bFirst bool `json:"r1b_first,omitempty"`
	// ReloadB > 0: the alphabet has a reload that replaces R1b by a rule with the threshold toggled
	// between its own and ReloadB (entries may be in flight; all counters must be kept)
	ReloadB int64 `json:"reload_r1b_threshold,omitempty"`
	// Throttle0 puts a permissive QPS rule with throttling behaviour (1000 per second, queueing up to
	// 1 s) on the same argument IN FRONT of R1: requests at one instant are queued by it ("should
	// wait") and must still be checked by the concurrency rule behind it
	Throttle0 bool `json:"throttling_rule_in_front,omitempty"`
	// ArgKind: Go type of the metered argument values: "" string, "int64", "named" (a named int32 type)
	ArgKind string `json:"arg_kind,omitempty"`
	// KeyOnly (rules selecting by attachment key): requests carry the attachment and NO positional arguments
	KeyOnly bool `json:"attachment_only_requests,omitempty"`
	// ThrottlingBehaviour: the concurrency rules carry ControlBehavior Throttling (the field belongs to QPS
	// rules; a concurrency rule counts entries whatever it says)
	ThrottlingBehaviour bool `json:"control_behavior_throttling,omitempty"`
}

func (c Config) String() string { b, _ := json.Marshal(c); return string(b) }

type opDef struct {
	enter  bool
	res    string
	val    string // "" = request without the selected argument
	slot   int
	miss   bool
	later  bool // a rule-check slot AFTER the hotspot slot rejects this request
	short  bool // only the first argument is passed (no value at index 1)
	reload bool
	// bc: batch count named by the request (0 = none named; -1 = an explicit 0). The rule counts entries, not
	// tokens: the decision and the unit taken are the same whatever the batch count is
	bc int
	// exitErr: the entry is exited after an exit handler that returns an error was registered on it
	exitErr bool
}

func (o opDef) String() string {
	if o.reload {
		return "reload(R1b threshold toggled)"
	}
	if o.miss {
		return "poolMiss"
	}
	if o.enter {
		if o.later {
			return fmt.Sprintf("E(%s,%q,rejected-by-a-later-slot)", o.res, o.val)
		}
		if o.short {
			return fmt.Sprintf("E(%s,%q,one-argument)", o.res, o.val)
		}
		if o.bc != 0 {
			return fmt.Sprintf("E(%s,%q,batch=%d)", o.res, o.val, map[bool]int{true: 0, false: o.bc}[o.bc < 0])
		}
		return fmt.Sprintf("E(%s,%q)", o.res, o.val)
	}
	if o.exitErr {
		return fmt.Sprintf("X(%d,failing-exit-handler)", o.slot)
	}
	return fmt.Sprintf("X(%d)", o.slot)
}

const maxLive = 4

type live struct {
	e     *base.SentinelEntry
	res   string
	val   string
	short bool // entered with one argument only: the second rule of r1 finds nothing to meter
}

type scen struct {
	cfg    Config
	ops    []opDef
	slots  [maxLive]*live
	misses int
	chain  *base.SlotChain
	r1bTh  int64 // threshold of R1b in force
}

// laterBlocker sits between the hotspot slot (order 4000) and the circuit breaker slot (5000).
type laterBlocker struct{}

func (laterBlocker) Order() uint32 { return 4500 }
func (laterBlocker) Check(ctx *base.EntryContext) *base.TokenResult {
	if ctx.Input.Flag == 9 {
		return base.NewTokenResultBlocked(base.BlockTypeUnknown)
	}
	return nil
}

func (s *scen) Name() string        { return s.cfg.String() }
func (s *scen) NumOps() int         { return len(s.ops) }
func (s *scen) OpName(i int) string { return s.ops[i].String() }

func (s *scen) Enabled(i int) bool {
	o := s.ops[i]
	if o.miss {
		return s.misses < 1 && vsync.PoolMiss == nil
	}
	if o.enter {
		if o.res == "r3" && s.cfg.R3 == nil {
			return false
		}
		if o.short && (s.cfg.R1b == nil || (s.cfg.R1.ByKey && s.cfg.R1b.Index == 0)) {
			// (with a key-selecting R1 and an R1b on argument 0 the one-argument request would put the value where
			// R1b looks and, the key being absent, where R1 falls back to: not the shape this operation is about)
			return false
		}
	}
	if o.reload {
		return s.cfg.R1b != nil && s.cfg.ReloadB > 0
	}
	if o.enter {
		for _, l := range s.slots {
			if l == nil {
				return true
			}
		}
		return false
	}
	return s.slots[o.slot] != nil
}

func mkRule(res string, r RuleSpec) *hotspot.Rule {
	hr := &hotspot.Rule{Resource: res, MetricType: hotspot.Concurrency, Threshold: r.Threshold, ParamIndex: r.Index}
	if r.ByKey {
		hr.ParamKey = "k"
		hr.ParamIndex = 0 // the attachment takes precedence over args[0] (a decoy)
	}
	if r.Specific != nil {
		hr.SpecificItems = map[interface{}]int64{}
		for k, v := range r.Specific {
			hr.SpecificItems[k] = v
		}
	}
	return hr
}

func (s *scen) ruleList() []*hotspot.Rule {
	rules := []*hotspot.Rule{mkRule("r1", s.cfg.R1)}
	if s.cfg.Throttle0 {
		t := &hotspot.Rule{Resource: "r1", MetricType: hotspot.QPS, ControlBehavior: hotspot.Throttling, ParamIndex: s.cfg.R1.Index,
			Threshold: 1000, DurationInSec: 1, MaxQueueingTimeMs: 1000}
		rules = []*hotspot.Rule{t, rules[0]}
	}
	if s.cfg.R1b != nil {
		b := *s.cfg.R1b
		b.Threshold = s.r1bTh
		if s.cfg.R1bFirst {
			rules = []*hotspot.Rule{mkRule("r1", b), mkRule("r1", s.cfg.R1)}
		} else {
			rules = append(rules, mkRule("r1", b))
		}
	}
	if s.cfg.R3 != nil {
		rules = append(rules, mkRule("r3", *s.cfg.R3))
	}
	if s.cfg.ThrottlingBehaviour {
		for _, r := range rules {
			if r.MetricType == hotspot.Concurrency {
				r.ControlBehavior = hotspot.Throttling
			}
		}
	}
	return rules
}

func (s *scen) Reset() {
	env.ResetAll(env.DefaultGeometry, 1700000000000)
	argKind, keyOnly = s.cfg.ArgKind, s.cfg.KeyOnly
	if s.cfg.R1b != nil {
		s.r1bTh = s.cfg.R1b.Threshold
	}
	rules := s.ruleList()
	if _, err := hotspot.LoadRules(rules); err != nil {
		panic(err)
	}
	if len(hotspot.GetRules()) != len(rules) {
		panic("harness: a hotspot rule of the configuration was not accepted")
	}
	for i := range s.slots {
		s.slots[i] = nil
	}
	s.misses = 0
	s.chain = chainx.NewPhaseChain(&chainx.Hooks{})
	s.chain.AddRuleCheckSlot(laterBlocker{})
}

func (s *scen) spec(res string) RuleSpec {
	if res == "r3" {
		return *s.cfg.R3
	}
	return s.cfg.R1
}

// decoyLive: live r1 entries that carry a value at index 1
func (s *scen) decoyLive() int64 {
	var n int64
	for _, l := range s.slots {
		if l != nil && l.res == "r1" && l.val != "" && !l.short {
			n++
		}
	}
	return n
}

func (s *scen) liveCount(res, val string) int64 {
	var n int64
	for _, l := range s.slots {
		if l != nil && l.res == res && l.val == val {
			n++
		}
	}
	return n
}

type namedInt int32

// argKind is the ArgKind of the configuration being explored (set by Reset)
var argKind string

// arg maps the harness's value names to the Go value passed to Entry
func arg(val string) interface{} {
	n := int64(7)
	if val == "B" {
		n = 8
	}
	switch argKind {
	case "int64":
		return n
	case "named":
		return namedInt(n)
	}
	return val
}

func argName(val string) string { return fmt.Sprint(arg(val)) }

// keyOnly mirrors Config.KeyOnly of the scenario being run (set in Reset).
var keyOnly bool

func entryOpts(spec RuleSpec, val string) []sentinel.EntryOption {
	var opts []sentinel.EntryOption
	if val == "" {
		return opts
	}
	if spec.ByKey && keyOnly {
		opts = append(opts, sentinel.WithAttachment("k", arg(val)))
	} else if spec.ByKey {
		opts = append(opts, sentinel.WithAttachment("k", arg(val)), sentinel.WithArgs("decoy"))
	} else if spec.Index == -1 {
		opts = append(opts, sentinel.WithArgs("decoy", arg(val)))
	} else {
		opts = append(opts, sentinel.WithArgs(arg(val), "decoy"))
	}
	return opts
}

func (s *scen) Apply(i int) (string, string) {
	o := s.ops[i]
	if o.miss {
		s.misses++
		vsync.PoolMiss = func() bool { vsync.PoolMiss = nil; return true }
		return "miss", ""
	}
	if o.reload {
		if s.r1bTh == s.cfg.R1b.Threshold {
			s.r1bTh = s.cfg.ReloadB
		} else {
			s.r1bTh = s.cfg.R1b.Threshold
		}
		rules := s.ruleList()
		if _, err := hotspot.LoadRules(rules); err != nil {
			return o.String(), "reload failed: " + err.Error()
		}
		if len(hotspot.GetRules()) != len(rules) {
			return o.String(), "after the reload not all rules are in force"
		}
		return o.String(), s.invariants(o)
	}
	if !o.enter {
		if o.exitErr {
			s.slots[o.slot].e.WhenExit(func(*base.SentinelEntry, *base.EntryContext) error { return errors.New("exit handler failed") })
		}
		s.slots[o.slot].e.Exit()
		s.slots[o.slot] = nil
		return o.String(), s.invariants(o)
	}
	spec := s.spec(o.res)
	opts := append(entryOpts(spec, o.val), sentinel.WithSlotChain(s.chain))
	if o.short {
		opts = []sentinel.EntryOption{sentinel.WithArgs(arg(o.val)), sentinel.WithSlotChain(s.chain)}
	}
	if o.later {
		opts = append(opts, sentinel.WithFlag(9))
	}
	if o.bc > 0 {
		opts = append(opts, sentinel.WithBatchCount(uint32(o.bc)))
	} else if o.bc < 0 {
		opts = append(opts, sentinel.WithBatchCount(0))
	}
	e, blk := sentinel.Entry(o.res, opts...)
	obs := o.String() + "=P"
	want := true
	if o.val != "" {
		th := spec.Threshold
		if v, ok := spec.Specific[o.val]; ok {
			th = v
		}
		want = s.liveCount(o.res, o.val) < th
		if want && o.res == "r1" && s.cfg.R1b != nil && !o.short {
			// second rule: meters the decoy argument, i.e. all live r1 entries that carry it
			want = s.decoyLive() < s.r1bTh
		}
	}
	if o.later {
		// whatever the hotspot rule says, this request is rejected (by it, or by the later slot) and
		// must not occupy a unit afterwards
		if blk == nil {
			e.Exit()
			return obs, fmt.Sprintf("%v was admitted", o)
		}
		return o.String() + "=B", s.invariants(o)
	}
	if blk != nil {
		obs = o.String() + "=B"
		if blk.BlockType() != base.BlockTypeHotSpotParamFlow {
			return obs, fmt.Sprintf("%v blocked with type %v", o, blk.BlockType())
		}
		if want {
			return obs, fmt.Sprintf("%v rejected although only %d entries are in flight for that value", o, s.liveCount(o.res, o.val))
		}
	} else {
		if !want {
			e.Exit()
			th := spec.Threshold
			if v, ok := spec.Specific[o.val]; ok {
				th = v
			}
			return obs, fmt.Sprintf("%v admitted although %d entries are already in flight for that value (threshold %d)", o, s.liveCount(o.res, o.val), th)
		}
		for k := range s.slots {
			if s.slots[k] == nil {
				s.slots[k] = &live{e, o.res, o.val, o.short}
				break
			}
		}
	}
	return obs, s.invariants(o)
}

func (s *scen) counters(res string) map[string]int64 {
	idx := 0
	if res == "r1" && (s.cfg.R1b != nil && s.cfg.R1bFirst || s.cfg.Throttle0) {
		idx = 1
	}
	conc, _, _ := hotspot.VerifCounters(res, idx)
	return toMap(conc)
}

func counters(res string) map[string]int64 {
	conc, _, _ := hotspot.VerifCounters(res, 0)
	return toMap(conc)
}

func toMap(kvs []cache.VerifKV) map[string]int64 {
	m := map[string]int64{}
	for _, kv := range kvs {
		m[fmt.Sprint(kv.K)] = kv.V
	}
	return m
}

func (s *scen) invariants(o opDef) string {
	for _, res := range []string{"r1", "r3"} {
		if res == "r3" && s.cfg.R3 == nil {
			continue
		}
		m := s.counters(res)
		for _, v := range []string{"A", "B"} {
			if g, w := m[argName(v)], s.liveCount(res, v); g != w {
				return fmt.Sprintf("after %v: per-value in-flight figure of %s/%s = %d, live entries = %d", o, res, v, g, w)
			}
		}
		if _, ok := m["decoy"]; ok {
			return fmt.Sprintf("after %v: a counter exists for an argument the rule does not select", o)
		}
		if res == "r1" && s.cfg.R1b != nil {
			i2 := 1
			if s.cfg.R1bFirst {
				i2 = 0
			}
			c2, _, _ := hotspot.VerifCounters("r1", i2)
			if g, w := toMap(c2)["decoy"], s.decoyLive(); g != w {
				return fmt.Sprintf("after %v: per-value in-flight figure of the second rule of r1 = %d, live entries = %d", o, g, w)
			}
		}
	}
	for k, l := range s.slots {
		if l == nil {
			continue
		}
		spec := s.spec(l.res)
		ctx := l.e.Context()
		got := ""
		if spec.ByKey {
			got = fmt.Sprint(ctx.Input.Attachments["k"])
		} else if l.val != "" {
			idx := 0
			if spec.Index == -1 {
				idx = len(ctx.Input.Args) - 1
			}
			if idx >= 0 && idx < len(ctx.Input.Args) {
				got = fmt.Sprint(ctx.Input.Args[idx])
			}
		}
		if l.val != "" && got != argName(l.val) {
			return fmt.Sprintf("after %v: live entry %d was admitted with value %q, its context now carries %q", o, k, l.val, got)
		}
	}
	return ""
}

func (s *scen) Key() string {
	var b strings.Builder
	fmt.Fprintf(&b, "b%d|", s.r1bTh)
	for _, l := range s.slots {
		if l == nil {
			b.WriteString("_;")
		} else {
			fmt.Fprintf(&b, "%s%s%v;", l.res, l.val, l.short)
		}
	}
	c1, _, _ := hotspot.VerifCounters("r1", 0)
	if s.cfg.Throttle0 {
		c1, _, _ = hotspot.VerifCounters("r1", 1)
	}
	c3, _, _ := hotspot.VerifCounters("r3", 0)
	fmt.Fprintf(&b, "|%v|%v|%v|m%d%v", c1, c3, vsync.PoolSizes(), s.misses, vsync.PoolMiss != nil)
	return b.String()
}

func mkOps() []opDef {
	var ops []opDef
	for _, res := range []string{"r1", "r3"} {
		for _, v := range []string{"A", "B", ""} {
			ops = append(ops, opDef{enter: true, res: res, val: v})
		}
	}
	ops = append(ops, opDef{enter: true, res: "r1", val: "A", later: true})
	ops = append(ops, opDef{enter: true, res: "r1", val: "A", short: true})
	ops = append(ops, opDef{enter: true, res: "r1", val: "A", bc: 3}, opDef{enter: true, res: "r1", val: "A", bc: -1})
	ops = append(ops, opDef{reload: true})
	for k := 0; k < maxLive; k++ {
		ops = append(ops, opDef{slot: k})
	}
	ops = append(ops, opDef{miss: true})
	ops = append(ops, opDef{slot: 0, exitErr: true})
	return ops
}

func configs() []Config {
	sp := func(t int64, m map[string]int64, key bool, idx int) RuleSpec { return RuleSpec{t, m, key, idx} }
	r3 := sp(1, nil, false, 0)
	return []Config{
		{R1: sp(1, nil, false, 0)},
		{R1: sp(2, nil, false, 0)},
		{R1: sp(2, map[string]int64{"A": 1}, false, 0)},
		{R1: sp(1, map[string]int64{"B": 2}, false, 0), R3: &r3},
		{R1: sp(1, nil, true, 0)},
		{R1: sp(2, map[string]int64{"A": 1}, true, 0), R3: &r3},
		{R1: sp(1, nil, false, -1)},
		{R1: sp(2, map[string]int64{"A": 0}, false, 0)},
		{R1: sp(0, nil, false, 0)},
		{R1: sp(2, nil, false, 0), R1b: &RuleSpec{Threshold: 2, Index: 1}},
		{R1: sp(1, map[string]int64{"B": 2}, false, 0), R1b: &RuleSpec{Threshold: 1, Index: 1}, R3: &r3},
		{R1: sp(2, nil, false, 0), R1b: &RuleSpec{Threshold: 2, Index: 1}, R1bFirst: true},
		{R1: sp(2, map[string]int64{"A": 1}, false, 0), R1b: &RuleSpec{Threshold: 3, Index: 1}, R1bFirst: true},
		{R1: sp(2, nil, false, 0), R1b: &RuleSpec{Threshold: 2, Index: 1}, ReloadB: 3},
		{R1: sp(1, nil, false, 0), R1b: &RuleSpec{Threshold: 3, Index: 1}, R1bFirst: true, ReloadB: 1},
		{R1: sp(2, nil, false, 0), Throttle0: true},
		{R1: sp(1, map[string]int64{"B": 2}, false, 0), Throttle0: true},
		{R1: sp(2, nil, false, 0), ArgKind: "int64"},
		{R1: sp(1, nil, true, 0), ArgKind: "named"},
		{R1: sp(2, map[string]int64{"A": 1}, true, 0), KeyOnly: true},
		{R1: sp(2, map[string]int64{"A": 1}, false, 0), R3: &r3, ThrottlingBehaviour: true},
		// two concurrency rules that share ParamIndex 0: one selects the attachment "k", the other argument 0 (the decoy)
		{R1: sp(2, nil, true, 0), R1b: &RuleSpec{Threshold: 2, Index: 0}},
		{R1: sp(1, map[string]int64{"B": 2}, true, 0), R1b: &RuleSpec{Threshold: 3, Index: 0}, R1bFirst: true},
		{R1: sp(2, nil, false, -1), R3: &r3, ArgKind: "named"},
	}
}

func signature(cfg Config, what string) string {
	zero := cfg.R1.Threshold == 0
	for _, v := range cfg.R1.Specific {
		if v == 0 {
			zero = true
		}
	}
	switch {
	case strings.Contains(what, "admitted although"):
		if zero && strings.Contains(what, "threshold 0") {
			return "C06:first-request-ignores-zero-threshold"
		}
		return "C06:over-admission"
	case strings.Contains(what, "rejected although"):
		return "C06:spurious-rejection"
	case strings.Contains(what, "in-flight figure"):
		return "C06:counter-mismatch"
	case strings.Contains(what, "context now carries"):
		return "C06:live-entry-value-overwritten"
	}
	return "C06:other"
}

type replayDoc struct {
	Kind string   `json:"kind"`
	Cfg  Config   `json:"cfg"`
	Path []int    `json:"path"`
	Ops  []string `json:"ops"`
}

func run(c *props.Ctx) {
	depth := 7
	if !c.Quick() {
		depth = 9
	}
	c.R.Bounds["depth"] = depth
	cfgs := configs()
	for i, cfg := range cfgs {
		if !c.Mine(i) {
			continue
		}
		cfg := cfg
		s := &scen{cfg: cfg, ops: mkOps()}
		res := seq.Explore(s, seq.Options{Depth: depth, Deadline: c.Deadline, Classify: func(w string) string { return signature(cfg, w) }, MaxStates: 3000000})
		c.R.States += int64(res.States)
		c.R.Transitions += res.Transitions
		c.R.Evaluations += res.Transitions
		c.R.Traces += res.Transitions
		for o := range res.Obs {
			c.R.Outcome(fmt.Sprintf("%d|%s", i, o))
		}
		if res.CapHit != "" && res.CapHit != "violation limit" {
			c.R.Cap(res.CapHit)
		}
		c.R.Sample(map[string]interface{}{"config": cfg, "states": res.States, "transitions": res.Transitions, "depth": res.Depth, "path": res.SamplePath})
		for _, v := range res.Violations {
			c.R.Violate(report.Violation{Signature: signature(cfg, v.What), What: v.What, Scenario: cfg.String() + " " + strings.Join(v.Ops, " "),
				Replay: replayDoc{Kind: "seq", Cfg: cfg, Path: v.Path, Ops: v.Ops}})
		}
	}
	runConc(c, len(cfgs))
}

// ---- concurrent: threads Entry(v) -> Exit at atomic-access granularity ----

type concScen struct {
	Vals   []string `json:"vals"`
	Thr    int64    `json:"threshold"`
	held   map[string]int64
	inCall int
	bad    string
	done   []bool
}

func (s *concScen) name() string { b, _ := json.Marshal(s); return string(b) }

func (s *concScen) setup() {
	env.ResetAll(env.DefaultGeometry, 1700000000000)
	if _, err := hotspot.LoadRules([]*hotspot.Rule{{Resource: "r1", MetricType: hotspot.Concurrency, Threshold: s.Thr}}); err != nil {
		panic(err)
	}
	s.held = map[string]int64{}
	s.inCall = 0
	s.bad = ""
	s.done = make([]bool, len(s.Vals))
}

// probe compares the per-value figures with what the harness knows: entries held between
// the return of Entry and the call of Exit are certainly counted; threads inside a call may
// or may not be.
func (s *concScen) probe(where string) {
	if s.bad != "" {
		return
	}
	m := counters("r1")
	for _, v := range []string{"A", "B"} {
		g := m[v]
		if g < s.held[v] || g > s.held[v]+int64(s.inCall) || g < 0 {
			s.bad = fmt.Sprintf("%s: per-value figure of %s = %d with %d entries held and %d calls in progress", where, v, g, s.held[v], s.inCall)
		}
	}
}

func (s *concScen) threads() []func() {
	fns := make([]func(), len(s.Vals))
	for i, v := range s.Vals {
		i, v := i, v
		fns[i] = func() {
			vsched.Point(vsched.KUser, nil)
			s.inCall++
			e, blk := sentinel.Entry("r1", sentinel.WithArgs(v))
			s.inCall--
			if blk == nil {
				s.held[v]++
				s.probe("after Entry")
				vsched.Point(vsched.KUser, nil)
				s.held[v]--
				s.inCall++
				e.Exit()
				s.inCall--
				s.probe("after Exit")
			}
			s.done[i] = true
		}
	}
	return fns
}

func (s *concScen) check(x *vsched.Exec) (string, string) {
	for _, d := range s.done {
		if !d {
			return "UNFINISHED", "a thread did not finish"
		}
	}
	if s.bad != "" {
		return "BAD", s.bad
	}
	for v, g := range counters("r1") {
		if g != 0 {
			return "LEAK", fmt.Sprintf("per-value figure of %s = %d after every entry exited", v, g)
		}
	}
	return "ok", ""
}

func (s *concScen) scenario() *sched.Scenario {
	return &sched.Scenario{Name: s.name(), Setup: s.setup, Threads: s.threads, Check: s.check, MaxSteps: 200000}
}

type concReplay struct {
	Kind    string   `json:"kind"`
	Scen    concScen `json:"scen"`
	Choices []int    `json:"choices"`
}

func runConc(c *props.Ctx, base int) {
	scs := []*concScen{{Vals: []string{"A", "A"}, Thr: 2}, {Vals: []string{"A", "B"}, Thr: 1}, {Vals: []string{"A", "A"}, Thr: 1}}
	if !c.Quick() {
		scs = append(scs, &concScen{Vals: []string{"A", "A", "B"}, Thr: 2})
	}
	bound := 1
	if !c.Quick() {
		bound = 2
	}
	c.R.Bounds["concurrent_preemption_bound"] = bound
	for i, s := range scs {
		if !c.Mine(base + i) {
			continue
		}
		res := sched.Explore(s.scenario(), sched.Options{Bound: bound, Deadline: c.Deadline, MaxExecs: 3000000})
		c.R.Evaluations += int64(res.Execs)
		c.R.Traces += int64(res.Execs)
		c.R.Transitions += res.Steps
		c.R.States += int64(res.States)
		for o := range res.Outcomes {
			c.R.Outcome("conc|" + s.name() + "|" + o)
		}
		if res.HarnessErr != "" {
			c.R.HarnessError(s.name() + ": " + res.HarnessErr)
		}
		if res.CapHit != "" {
			c.R.Cap(res.CapHit)
		}
		c.R.Sample(map[string]interface{}{"concurrent": s.name(), "schedules": res.Execs, "bound": bound})
		for _, v := range res.Violations {
			c.R.Violate(report.Violation{Signature: "C06:concurrent:" + v.Outcome, What: v.What, Scenario: s.name(),
				Replay: concReplay{Kind: "conc", Scen: *s, Choices: v.Choices}})
		}
	}
}

func replay(c *props.Ctx, raw json.RawMessage) (bool, string) {
	var d replayDoc
	if err := json.Unmarshal(raw, &d); err != nil {
		return false, err.Error()
	}
	if d.Kind == "conc" {
		var cd concReplay
		_ = json.Unmarshal(raw, &cd)
		_, w := sched.Replay(cd.Scen.scenario(), cd.Choices, nil)
		return w != "", w
	}
	s := &scen{cfg: d.Cfg, ops: mkOps()}
	w := seq.Replay(s, d.Path)
	return w != "", w
}

func init() {
	props.Register(&props.Prop{ID: "C06", Run: run, Replay: replay})
}
