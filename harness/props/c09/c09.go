// Package c09: sliding-window counters under concurrent writers, readers and rollover.
//
// Engine A. Real BucketLeapArray, 2-3 threads, each one or two of add / count / values with
// explicit timestamps on both sides of a bucket boundary (all within one bucket length of
// each other, the property's premise); every interleaving at atomic-access granularity
// (unbounded, pruned by a global state key), plus preemption-bounded passes.
package c09

import (
	"encoding/json"
	"fmt"
	"os"
	"sort"
	"unsafe"

	cb "github.com/alibaba/sentinel-golang/core/base"
	sb "github.com/alibaba/sentinel-golang/core/stat/base"
	"github.com/alibaba/sentinel-golang/verifshim/vsched"

	"verifharness/engine/sched"
	"verifharness/env"
	"verifharness/props"
	"verifharness/report"
)

const (
	opAdd = iota
	opCount
	opValues
	opCond  // ValuesConditional(t, always true): a reader that does not refresh the current slot first
	opAddRt // a response-time recorder (amount 5): besides the sum it maintains the bucket's minimum
)

type op struct {
	Kind int    `json:"k"`
	T    uint64 `json:"t"`
	// filled per execution
	field   int // amount = 1 << (3*field)
	call    int
	ret     int
	result  int64
	starts  []uint64
	started bool
	done    bool
}

func (o op) String() string {
	return fmt.Sprintf("%s@%d", [...]string{"add", "count", "values", "cond"}[o.Kind], o.T)
}

type scen struct {
	N     uint32 `json:"n"`
	BL    uint32 `json:"bl"`
	B     uint64 `json:"boundary"`
	Progs [][]op `json:"progs"`
	Bound int    `json:"bound"` // preemption bound, -1 = all interleavings (keyed)
	// Gap: the array was idle for one more full interval before the boundary, so EVERY slot is expired
	// and callers in different buckets roll different slots over at the same time
	Gap bool `json:"idle_gap,omitempty"`
	// Getter (1 MinRt, 2 MaxConcurrency): one thread calls the getter, which reads the clock itself (twice: to
	// refresh the current bucket and to scan), while another thread moves the clock from B-1 to B; with the
	// idle gap every bucket filled in setup is expired at both instants, so nothing of them may be reported
	Getter int `json:"moving_clock_getter,omitempty"`
	gres   int64
	arr    *sb.BucketLeapArray
	ops    [][]op // per execution copy
	seq    int
	prec   uint64 // bit (a*8+b): op a finished before op b started (global op index)
	roll   [4]struct {
		thread int
		start  uint64
		active bool
	}
	overlap    bool
	startAddrs []unsafe.Pointer
	lockAddr   unsafe.Pointer
	nStale     int
}

func (s *scen) name() string {
	b, _ := json.Marshal(s.Progs)
	g := ""
	if s.Gap {
		g = " idle-gap"
	}
	if s.Getter != 0 {
		return fmt.Sprintf("N=%d bl=%d B=%d%s getter %s || clock %d -> %d", s.N, s.BL, s.B, g, [...]string{"", "MinRt", "MaxConcurrency"}[s.Getter], s.B-1, s.B)
	}
	return fmt.Sprintf("N=%d bl=%d B=%d%s %s", s.N, s.BL, s.B, g, b)
}

func (s *scen) readersOnly() bool {
	for _, p := range s.Progs {
		for _, o := range p {
			if o.Kind != opCond {
				return false
			}
		}
	}
	return true
}

func (s *scen) interval() uint64       { return uint64(s.N) * uint64(s.BL) }
func (s *scen) bstart(t uint64) uint64 { return t - t%uint64(s.BL) }
func (s *scen) slot(t uint64) int      { return int((t / uint64(s.BL)) % uint64(s.N)) }

// inWindow: is bucket start bs inside the aligned window ending at the bucket of t.
func (s *scen) inWindow(bs, t uint64) bool {
	cur := s.bstart(t)
	lo := cur + uint64(s.BL) - s.interval()
	return bs >= lo && bs <= cur
}

func (s *scen) staleStart(j int) uint64 {
	st := s.B - s.interval() + uint64(j)*uint64(s.BL)
	if s.Gap {
		st -= s.interval()
	}
	return st
}
func (s *scen) staleAmt(j int) int64 { return 1 << (3 * uint(j)) }

func (s *scen) setup() {
	env.Install()
	vsched.AfterOp = nil
	// build the array two cycles before the boundary, then fill the N buckets preceding B
	env.Clock.SetMs(int64(s.B - 3*s.interval()))
	s.arr = sb.NewBucketLeapArray(s.N, uint32(s.interval()))
	for j := 0; j < int(s.N); j++ {
		s.arr.VerifAddCountWithTime(s.staleStart(j), cb.MetricEventPass, s.staleAmt(j))
	}
	// a larger response time already sits in the youngest filled bucket (its minimum is 50)
	s.arr.VerifAddCountWithTime(s.staleStart(int(s.N)-1), cb.MetricEventRt, 50)
	// one conditional read before the threads start: whatever such a reader may keep between calls exists by then
	_ = s.arr.ValuesConditional(s.staleStart(int(s.N)-1), func(uint64) bool { return true })
	s.nStale = int(s.N)
	s.ops = make([][]op, len(s.Progs))
	f := s.nStale
	for i, p := range s.Progs {
		s.ops[i] = append([]op(nil), p...)
		for j := range s.ops[i] {
			s.ops[i][j].field = f
			f++
		}
	}
	s.seq = 0
	s.prec = 0
	s.overlap = false
	for i := range s.roll {
		s.roll[i].active = false
	}
	s.startAddrs = s.arr.VerifStartAddrs()
	s.lockAddr = s.arr.VerifLockAddr()
	vsched.ResetRegions()
	for _, r := range s.arr.VerifRegions() {
		vsched.RegisterRegion(r.Base, r.Size)
	}
	vsched.AfterOp = s.afterOp
}

// afterOp watches stores to a slot's BucketStart: that is the beginning of a rollover.
//
//go:norace
func (s *scen) afterOp(kind uint8, addr unsafe.Pointer, old, new uint64, ok bool) {
	if debug {
		fmt.Printf("  T%d %s addr=%p old=%d new=%d ok=%v\n", vsched.Cur(), vsched.KindNames[kind], addr, old, new, ok)
	}
	if kind == vsched.KCAS && addr == s.lockAddr && ok {
		// the try-lock was taken: the caller is about to roll the bucket of its timestamp over
		me := vsched.Cur()
		for _, o := range s.ops[me] {
			if o.started && !o.done {
				s.rollBegin(me, s.slot(o.T), s.bstart(o.T))
			}
		}
		return
	}
	if kind != vsched.KStore {
		return
	}
	for k, a := range s.startAddrs {
		if a == addr {
			s.rollBegin(vsched.Cur(), k, new)
		}
	}
}

//go:norace
func (s *scen) rollBegin(me, k int, new uint64) {
	{
		{
			s.roll[k].thread, s.roll[k].start, s.roll[k].active = me, new, true
			// any other thread's in-progress add that targets this bucket overlaps
			for ti, p := range s.ops {
				if ti == me {
					continue
				}
				for _, o := range p {
					if o.started && !o.done && o.Kind == opAdd && s.bstart(o.T) == new {
						s.overlap = true
					}
				}
			}
		}
	}
}

func (s *scen) gidx(ti, j int) int {
	g := 0
	for i := 0; i < ti; i++ {
		g += len(s.ops[i])
	}
	return g + j
}

func (s *scen) begin(ti, j int) {
	o := &s.ops[ti][j]
	s.seq++
	o.call = s.seq
	o.started = true
	g := s.gidx(ti, j)
	for a := range s.ops {
		for b := range s.ops[a] {
			if s.ops[a][b].done {
				s.prec |= 1 << uint(s.gidx(a, b)*8+g)
			}
		}
	}
	if o.Kind == opAdd {
		k := s.slot(o.T)
		if s.roll[k].active && s.roll[k].thread != ti && s.roll[k].start == s.bstart(o.T) {
			s.overlap = true
		}
	}
}

func (s *scen) end(ti, j int) {
	o := &s.ops[ti][j]
	s.seq++
	o.ret = s.seq
	o.done = true
	for k := range s.roll {
		if s.roll[k].active && s.roll[k].thread == ti {
			s.roll[k].active = false
		}
	}
}

func (s *scen) threads() []func() {
	fns := make([]func(), len(s.ops))
	for ti := range s.ops {
		ti := ti
		fns[ti] = func() {
			for j := range s.ops[ti] {
				o := &s.ops[ti][j]
				// call and return are scheduling points of their own: the oracle uses their order
				vsched.Point(vsched.KUser, nil)
				s.begin(ti, j)
				switch o.Kind {
				case opAdd:
					s.arr.VerifAddCountWithTime(o.T, cb.MetricEventPass, 1<<(3*uint(o.field)))
				case opCount:
					o.result = s.arr.CountWithTime(o.T, cb.MetricEventPass)
				case opValues:
					o.starts = sb.VerifStartsOf(s.arr.Values(o.T))
				case opCond:
					o.starts = sb.VerifStartsOf(s.arr.ValuesConditional(o.T, func(uint64) bool { return true }))
				case opAddRt:
					s.arr.VerifAddCountWithTime(o.T, cb.MetricEventRt, 5)
				}
				vsched.Point(vsched.KUser, nil)
				s.end(ti, j)
			}
		}
	}
	return fns
}

func (s *scen) stateKey() uint64 {
	b, lw := s.arr.VerifDump()
	h := uint64(lw) + 1
	for _, x := range b {
		h = vsched.Mix(h, x.Start)
		h = vsched.Mix(h, uint64(x.Counter[cb.MetricEventPass]))
		h = vsched.Mix(h, uint64(x.MinRt))
		h = vsched.Mix(h, uint64(x.MaxConc))
	}
	h = vsched.Mix(h, s.prec)
	for _, p := range s.ops {
		for _, o := range p {
			v := uint64(0)
			if o.started {
				v = 1
			}
			if o.done {
				v = 2
			}
			h = vsched.Mix(h, v)
		}
	}
	for _, r := range s.roll {
		if r.active {
			h = vsched.Mix(h, uint64(r.thread+1)*1000003+r.start)
		} else {
			h = vsched.Mix(h, 0)
		}
	}
	if s.overlap {
		h = vsched.Mix(h, 99)
	}
	return h
}

// decode splits v into 3-bit fields; ok=false if a field holds more than 1 (duplication) or
// v has bits beyond the known fields.
func decode(v int64, nfields int) (set []int, ok bool) {
	if v < 0 {
		return nil, false
	}
	ok = true
	for f := 0; f < 21; f++ {
		x := (v >> (3 * uint(f))) & 7
		if x == 0 {
			continue
		}
		if x != 1 || f >= nfields {
			ok = false
		}
		set = append(set, f)
	}
	return
}

func (s *scen) allOps() []*op {
	var out []*op
	for i := range s.ops {
		for j := range s.ops[i] {
			out = append(out, &s.ops[i][j])
		}
	}
	return out
}

func (s *scen) opByField(f int) *op {
	for _, o := range s.allOps() {
		if o.field == f {
			return o
		}
	}
	return nil
}

func (s *scen) check(x *vsched.Exec) (string, string) {
	nf := s.nStale
	for _, p := range s.ops {
		nf += len(p)
	}
	out := ""
	for _, o := range s.allOps() {
		if !o.done {
			return "UNFINISHED", fmt.Sprintf("op %v did not complete", *o)
		}
		switch o.Kind {
		case opCount:
			out += fmt.Sprintf("c%d=%x;", o.T, o.result)
			set, ok := decode(o.result, nf)
			if !ok {
				return out, fmt.Sprintf("count@%d = %#x holds a duplicated or invented amount", o.T, o.result)
			}
			have := map[int]bool{}
			for _, f := range set {
				have[f] = true
				if f < s.nStale {
					if !s.inWindow(s.staleStart(f), o.T) {
						return out, fmt.Sprintf("count@%d = %#x shows data of expired bucket %d", o.T, o.result, s.staleStart(f))
					}
					continue
				}
				a := s.opByField(f)
				if a == nil || a.Kind != opAdd {
					return out, fmt.Sprintf("count@%d = %#x shows an amount nobody recorded", o.T, o.result)
				}
				if a.call > o.ret {
					return out, fmt.Sprintf("count@%d shows add@%d that had not started", o.T, a.T)
				}
				// an amount recorded for a bucket older than the read's window has surfaced in a
				// later window (a read that is overtaken by a newer bucket may see the newer amount:
				// that is recorded data, not stale data)
				if s.N > 1 && s.bstart(a.T)+s.interval() <= s.bstart(o.T) {
					return out, fmt.Sprintf("count@%d = %#x shows add@%d which is outside its window", o.T, o.result, a.T)
				}
			}
			if !s.overlap {
				// exactness: every add completed before this read began and inside its window
				// must be visible; so must live stale buckets.
				for _, a := range s.allOps() {
					if s.rolledAwayBefore(a, o.ret) {
						continue // a later-timed operation may already have recycled the add's slot
					}
					if a.Kind == opAdd && a.ret < o.call && s.inWindow(s.bstart(a.T), o.T) && !have[a.field] {
						return out, fmt.Sprintf("count@%d = %#x lost add@%d although no recorder overlapped a rollover of its bucket", o.T, o.result, a.T)
					}
				}
			}
		case opCond:
			sort.Slice(o.starts, func(i, j int) bool { return o.starts[i] < o.starts[j] })
			out += fmt.Sprintf("k%d=%v;", o.T, o.starts)
			// The returned slots are live pointers: their starts were read after the call. When no
			// other operation overlapped this one nothing can have moved, and the set must be exactly
			// the window's buckets: in particular no bucket that is a whole interval old.
			// (Other conditional readers change nothing, so they do not count as overlap.)
			alone := true
			for _, x := range s.allOps() {
				if x != o && x.Kind != opCond && !(x.ret < o.call || x.call > o.ret) {
					alone = false
				}
			}
			for i := 1; i < len(o.starts); i++ {
				if o.starts[i] == o.starts[i-1] {
					return out, fmt.Sprintf("cond@%d returned bucket %d twice: its amounts would be duplicated or invented", o.T, o.starts[i])
				}
			}
			if alone {
				for _, st := range o.starts {
					if !(st <= o.T && st+s.interval() > o.T) {
						return out, fmt.Sprintf("cond@%d returned the expired bucket %d (window is (%d,%d])", o.T, st, int64(o.T)-int64(s.interval()), o.T)
					}
				}
			}
			onlyReaders := true
			for _, x := range s.allOps() {
				if x.Kind != opCond {
					onlyReaders = false
				}
			}
			if onlyReaders {
				// nothing ever changes: the answer is exactly the filled buckets inside the reader's own window
				var want []uint64
				for j := 0; j < s.nStale; j++ {
					if st := s.staleStart(j); st <= o.T && st+s.interval() > o.T {
						want = append(want, st)
					}
				}
				if fmt.Sprint(want) != fmt.Sprint(o.starts) {
					return out, fmt.Sprintf("cond@%d returned the buckets %v, its window holds %v: amounts lost or invented (outside its window)", o.T, o.starts, want)
				}
			}
		case opValues:
			sort.Slice(o.starts, func(i, j int) bool { return o.starts[i] < o.starts[j] })
			out += fmt.Sprintf("v%d=%v;", o.T, o.starts)
			// Values hands out live slot pointers; what they show later is not a read of this
			// operation, so only the count results and the final state are judged.
		}
	}
	// final state
	b, lw := s.arr.VerifDump()
	if lw != 0 {
		return out, "update lock still held after all threads finished"
	}
	total := map[int]bool{}
	for _, bk := range b {
		v := bk.Counter[cb.MetricEventPass]
		out += fmt.Sprintf("b%d=%x;", bk.Start, v)
		set, ok := decode(v, nf)
		if !ok {
			return out, fmt.Sprintf("bucket %d holds %#x: duplicated or invented amount", bk.Start, v)
		}
		for _, f := range set {
			if total[f] {
				return out, fmt.Sprintf("amount field %d is credited to two buckets", f)
			}
			total[f] = true
			if f < s.nStale {
				if s.staleStart(f) != bk.Start {
					return out, fmt.Sprintf("bucket %d still holds data of expired bucket %d", bk.Start, s.staleStart(f))
				}
				continue
			}
			a := s.opByField(f)
			if a == nil || a.Kind != opAdd {
				return out, fmt.Sprintf("bucket %d holds an amount nobody recorded", bk.Start)
			}
			if s.N > 1 && s.bstart(a.T) != bk.Start {
				return out, fmt.Sprintf("add@%d credited to bucket %d", a.T, bk.Start)
			}
		}
	}
	if !s.overlap {
		for _, a := range s.allOps() {
			if a.Kind != opAdd {
				continue
			}
			// the add's bucket must still exist unless a later op rolled its slot over
			rolled := false
			for _, bk := range b {
				if s.slot(bk.Start) == s.slot(a.T) && bk.Start > s.bstart(a.T) {
					rolled = true
				}
			}
			if !rolled && !total[a.field] {
				return out, fmt.Sprintf("add@%d lost although no recorder overlapped a rollover of its bucket", a.T)
			}
		}
	}
	if s.overlap {
		out += "overlap"
	}
	return out, ""
}

// rolledAwayBefore: some operation whose timestamp selects a later bucket in the same slot as
// a's bucket had started before seq: the slot may legitimately have been recycled.
func (s *scen) rolledAwayBefore(a *op, seq int) bool {
	for _, o := range s.allOps() {
		if o.started && o.call < seq && s.slot(o.T) == s.slot(a.T) && s.bstart(o.T) > s.bstart(a.T) {
			return true
		}
	}
	return false
}

func (s *scen) getterSetup() {
	s.setup()
	vsched.AfterOp = nil
	s.arr.VerifAddCountWithTime(s.staleStart(0), cb.MetricEventRt, 7)
	s.arr.VerifUpdateConcurrencyWithTime(s.staleStart(0), 5)
	env.Clock.SetMs(int64(s.B - 1))
	s.gres = -1
}

func (s *scen) getterThreads() []func() {
	return []func(){
		func() {
			if s.Getter == 1 {
				s.gres = s.arr.MinRt()
			} else {
				s.gres = int64(s.arr.MaxConcurrency())
			}
		},
		func() { env.Clock.SetMs(int64(s.B)) },
	}
}

func (s *scen) getterCheck(x *vsched.Exec) (string, string) {
	want, name := int64(cb.DefaultStatisticMaxRt), "MinRt"
	if s.Getter == 2 {
		want, name = 0, "MaxConcurrency"
	}
	out := fmt.Sprintf("%s=%d", name, s.gres)
	if s.gres != want {
		return out, fmt.Sprintf("%s() while the clock moves from %d to %d reports %d: data of an expired bucket (start %d, recorded two intervals ago) is visible, want %d", name, s.B-1, s.B, s.gres, s.staleStart(0), want)
	}
	return out, ""
}

func (s *scen) scenario() *sched.Scenario {
	if s.Getter != 0 {
		return &sched.Scenario{Name: s.name(), Setup: s.getterSetup, Threads: s.getterThreads, Check: s.getterCheck,
			StateKey: s.stateKey, MaxSteps: 5000, HorizonViolates: true, POR: false}
	}
	return &sched.Scenario{
		Name:     s.name(),
		Setup:    s.setup,
		Threads:  s.threads,
		Check:    s.check,
		StateKey: s.stateKey,
		MaxSteps: 5000, HorizonViolates: true,
		// readers only: every atomic load is a choice point (the shared-location reduction would make the readers
		// atomic, as nothing they touch is written), so state a reader keeps in plain memory shows
		POR: !s.readersOnly(),
	}
}

// programs enumerates op sequences of length 1..maxLen over the times ts (non-decreasing).
func programs(ts []uint64, maxLen int) [][]op {
	var single []op
	for _, t := range ts {
		for k := opAdd; k <= opValues; k++ {
			single = append(single, op{Kind: k, T: t})
		}
	}
	var out [][]op
	for _, a := range single {
		out = append(out, []op{a})
	}
	if maxLen >= 2 {
		for _, a := range single {
			for _, b := range single {
				if b.T >= a.T {
					out = append(out, []op{a, b})
				}
			}
		}
	}
	return out
}

func hasAdd(p []op) bool {
	for _, o := range p {
		if o.Kind == opAdd {
			return true
		}
	}
	return false
}

type geom struct {
	N, BL uint32
	B     uint64
}

func scenarios(c *props.Ctx) []*scen {
	var out []*scen
	geoms := []geom{{1, 10, 1000}, {2, 10, 1000}, {3, 10, 1210}}
	if !c.Quick() {
		geoms = append(geoms, geom{2, 10, 1010}, geom{3, 10, 1200})
	}
	for _, g := range geoms {
		ts := []uint64{g.B - 1, g.B}
		p2 := programs(ts, 2)
		p1 := programs(ts, 1)
		// class A: two threads, up to two ops each: all interleavings (keyed, unbounded)
		for i := 0; i < len(p2); i++ {
			for j := i; j < len(p2); j++ {
				if !hasAdd(p2[i]) && !hasAdd(p2[j]) {
					continue
				}
				out = append(out, &scen{N: g.N, BL: g.BL, B: g.B, Progs: [][]op{p2[i], p2[j]}, Bound: -1})
			}
		}
		// class A with an idle gap (more than one bucket): both timestamps need a rollover, of different slots
		// (one operation per thread at all interleavings; a two-operation thread against a one-operation thread
		// with at most two preemptions: two concurrent rollovers make the full space much larger)
		for i := 0; i < len(p1) && g.N > 1; i++ {
			for j := i; j < len(p1); j++ {
				if hasAdd(p1[i]) || hasAdd(p1[j]) {
					out = append(out, &scen{N: g.N, BL: g.BL, B: g.B, Progs: [][]op{p1[i], p1[j]}, Bound: -1, Gap: true})
				}
			}
		}
		for i := 0; i < len(p2) && g.N > 1; i++ {
			for j := 0; j < len(p1) && len(p2[i]) == 2; j++ {
				if hasAdd(p2[i]) || hasAdd(p1[j]) {
					out = append(out, &scen{N: g.N, BL: g.BL, B: g.B, Progs: [][]op{p2[i], p1[j]}, Bound: 2, Gap: true})
				}
			}
		}
		// response-time recorders (they also maintain the bucket's minimum) against a recorder that rolls the
		// bucket over, and against each other: every one of them terminates
		for _, t1 := range ts {
			for _, t2 := range ts {
				out = append(out, &scen{N: g.N, BL: g.BL, B: g.B, Progs: [][]op{{{Kind: opAddRt, T: t1}}, {{Kind: opAdd, T: t2}}}, Bound: -1})
				if t2 >= t1 {
					out = append(out, &scen{N: g.N, BL: g.BL, B: g.B, Progs: [][]op{{{Kind: opAddRt, T: t1}}, {{Kind: opAddRt, T: t2}}}, Bound: -1})
				}
			}
		}
		// a getter that reads the clock itself, against the clock crossing the boundary
		for k := 1; k <= 2 && g.N > 1; k++ {
			out = append(out, &scen{N: g.N, BL: g.BL, B: g.B, Bound: 2, Gap: true, Getter: k})
		}
		// class A': a non-refreshing conditional reader against every two-op program, and on its own
		for _, t := range ts {
			out = append(out, &scen{N: g.N, BL: g.BL, B: g.B, Progs: [][]op{{{Kind: opCond, T: t}}, {{Kind: opCond, T: t}}}, Bound: 2})
			if t != ts[0] {
				// two conditional readers whose windows differ (the older reader still sees the bucket that has
				// expired for the newer one), and three of them
				out = append(out, &scen{N: g.N, BL: g.BL, B: g.B, Progs: [][]op{{{Kind: opCond, T: ts[0]}}, {{Kind: opCond, T: t}}}, Bound: 2})
				out = append(out, &scen{N: g.N, BL: g.BL, B: g.B, Progs: [][]op{{{Kind: opCond, T: ts[0]}}, {{Kind: opCond, T: t}}, {{Kind: opCond, T: ts[0]}}}, Bound: 2})
			}
			for i := 0; i < len(p2); i++ {
				if hasAdd(p2[i]) {
					out = append(out, &scen{N: g.N, BL: g.BL, B: g.B, Progs: [][]op{p2[i], {{Kind: opCond, T: t}}}, Bound: -1})
				}
			}
		}
		// class B: three threads, one op each: preemption bound 2 (quick) / all interleavings (thorough)
		for i := 0; i < len(p1); i++ {
			for j := i; j < len(p1); j++ {
				for k := j; k < len(p1); k++ {
					if !hasAdd(p1[i]) && !hasAdd(p1[j]) && !hasAdd(p1[k]) {
						continue
					}
					b := 2
					if !c.Quick() {
						b = -1
					}
					out = append(out, &scen{N: g.N, BL: g.BL, B: g.B, Progs: [][]op{p1[i], p1[j], p1[k]}, Bound: b})
				}
			}
		}
		// class C (thorough): three threads, one of them with two ops: preemption bound 3
		if !c.Quick() {
			for i := 0; i < len(p2); i++ {
				if len(p2[i]) < 2 {
					continue
				}
				for j := 0; j < len(p1); j++ {
					for k := j; k < len(p1); k++ {
						if !hasAdd(p2[i]) && !hasAdd(p1[j]) && !hasAdd(p1[k]) {
							continue
						}
						out = append(out, &scen{N: g.N, BL: g.BL, B: g.B, Progs: [][]op{p2[i], p1[j], p1[k]}, Bound: 3})
					}
				}
			}
		}
	}
	return out
}

var debug = os.Getenv("VERIF_DEBUG") != ""

type replayDoc struct {
	Scen    scen     `json:"scen"`
	Choices []int    `json:"choices"`
	Shared  []uint64 `json:"shared"`
}

func signature(what string) string {
	// class of failure: the text up to the first digit-bearing detail is stable enough
	switch {
	case contains(what, "expired bucket"):
		return "C09:expired-data-visible"
	case contains(what, "duplicated or invented"):
		return "C09:duplicated-or-invented"
	case contains(what, "credited to bucket"), contains(what, "outside its window"):
		return "C09:credited-to-wrong-bucket"
	case contains(what, "lost"):
		return "C09:lost-without-overlap"
	case contains(what, "update lock still held"):
		return "C09:update-lock-leaked"
	case contains(what, "deadlock"), contains(what, "livelock"), contains(what, "did not complete"), contains(what, "does not terminate"):
		return "C09:non-termination"
	}
	return "C09:" + what
}

func contains(s, sub string) bool {
	for i := 0; i+len(sub) <= len(s); i++ {
		if s[i:i+len(sub)] == sub {
			return true
		}
	}
	return false
}

func run(c *props.Ctx) {
	all := scenarios(c)
	c.R.Bounds["scenarios_total"] = len(all)
	c.R.Bounds["mode"] = "2 threads x <=2 ops: ALL interleavings (state-key pruning + shared-location reduction); 3 threads x 1 op: preemption bound 2 (quick) / all interleavings (thorough); 3 threads with a 2-op thread: preemption bound 3 (thorough)"
	unb, bnd := 0, 0
	defer func() {
		c.R.Bounds["scenarios_all_interleavings_this_shard"] = unb
		c.R.Bounds["scenarios_preemption_bounded_this_shard"] = bnd
	}()
	for i, s := range all {
		if !c.Mine(i) {
			continue
		}
		if c.Expired() {
			c.R.Cap("time budget reached before all scenarios were explored")
			break
		}
		res := sched.Explore(s.scenario(), sched.Options{Bound: s.Bound, Deadline: c.Deadline, MaxExecs: 3000000})
		if s.Bound < 0 {
			unb++
		} else {
			bnd++
		}
		c.R.Evaluations += int64(res.Execs)
		c.R.Traces += int64(res.Execs)
		c.R.Transitions += res.Steps
		c.R.States += int64(res.States)
		for o := range res.Outcomes {
			c.R.Outcome(fmt.Sprintf("%d/%d/%d|%s", s.N, s.BL, s.B, o))
		}
		if res.HarnessErr != "" {
			c.R.HarnessError(s.name() + ": " + res.HarnessErr)
		}
		if res.CapHit != "" {
			c.R.Cap(res.CapHit)
		}
		if os.Getenv("VERIF_STATS") != "" {
			c.R.Scenarios = append(c.R.Scenarios, []interface{}{s.name(), res.Execs, res.States})
		}
		if i%97 == 0 {
			c.R.Sample(map[string]interface{}{"scenario": s.name(), "execs": res.Execs, "states": res.States, "outcomes": len(res.Outcomes), "schedule": res.SampleSched})
		}
		for _, v := range res.Violations {
			c.R.Violate(report.Violation{Signature: signature(v.What), What: v.What, Scenario: s.name(),
				Replay: replayDoc{Scen: *s, Choices: v.Choices, Shared: v.Shared}})
		}
	}
}

func replay(c *props.Ctx, raw json.RawMessage) (bool, string) {
	var d replayDoc
	if err := json.Unmarshal(raw, &d); err != nil {
		return false, err.Error()
	}
	s := d.Scen
	_, what := sched.Replay(s.scenario(), d.Choices, d.Shared)
	return what != "", what
}

func init() {
	props.Register(&props.Prop{ID: "C09", Run: run, Replay: replay})
}
