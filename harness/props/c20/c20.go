// Package c20: outlier ejection never removes more than the allowed share of nodes.
//
// (1) Exhaustive pairs: every node count 1..64 x every ejection percentage of a grid (k/m
// fractions and decimals as float64) with ALL nodes' breakers open: the size of the filter
// list is compared with floor(p*n) computed in exact rational arithmetic.
// (2) Engine B histories: 3 nodes, requests whose callee is node j and succeed / fail,
// clock advances, explicit firing of the (virtual) recycle / recovery timers, passive and
// active recovery; the filter list, the half-open list and node recycling are compared with
// a per-node reference.
package c20

import (
	"encoding/json"
	"errors"
	"fmt"
	"math/big"
	"sort"
	"strings"

	sentinel "github.com/alibaba/sentinel-golang/api"
	"github.com/alibaba/sentinel-golang/core/base"
	cb "github.com/alibaba/sentinel-golang/core/circuitbreaker"
	"github.com/alibaba/sentinel-golang/core/outlier"
	"github.com/alibaba/sentinel-golang/core/stat"
	vtime "github.com/alibaba/sentinel-golang/verifshim/vtime"

	"verifharness/engine/seq"
	"verifharness/env"
	"verifharness/props"
	"verifharness/report"
)

var bizErr = errors.New("biz")

const T0 = int64(1700000000000)
const retryMs = 1000
const recycleS = 5

func chain() *base.SlotChain {
	sc := base.NewSlotChain()
	sc.AddStatPrepareSlot(stat.DefaultResourceNodePrepareSlot)
	sc.AddRuleCheckSlot(outlier.DefaultSlot)
	sc.AddStatSlot(stat.DefaultSlot)
	sc.AddStatSlot(outlier.DefaultMetricStatSlot)
	return sc
}

// oneAttempt mirrors Config.OneAttempt of the configuration being explored (set in Reset).
var oneAttempt bool

func mkRule(res string, pct float64, active bool, healthy bool) *outlier.Rule {
	attempts := uint32(2)
	if oneAttempt {
		attempts = 1
	}
	return &outlier.Rule{
		Rule:                 &cb.Rule{Id: res, Resource: res, Strategy: cb.ErrorCount, RetryTimeoutMs: retryMs, MinRequestAmount: 1, StatIntervalMs: 100000, Threshold: 1},
		EnableActiveRecovery: active, MaxEjectionPercent: pct, RecoveryIntervalMs: 2000, RecycleIntervalS: recycleS, MaxRecoveryAttempts: attempts,
		RecoveryCheckFunc: func(string) bool { return healthy },
	}
}

func reset() {
	env.ResetAll(env.DefaultGeometry, T0)
	_ = outlier.ClearRules()
	outlier.VerifResetRuntime()
	vtime.VerifReset()
}

// call performs one request on the outlier chain whose callee is node addr.
func call(sc *base.SlotChain, res, addr string, fail bool, fast ...bool) (filters, halfs []string) {
	e, blk := sentinel.Entry(res, sentinel.WithSlotChain(sc))
	if blk != nil {
		return nil, nil
	}
	if len(fast) > 0 && fast[0] {
		outlier.VerifBarrier()
	}
	filters = append([]string(nil), e.Context().FilterNodes()...)
	halfs = append([]string(nil), e.Context().HalfOpenNodes()...)
	sentinel.TraceCallee(e, addr)
	if fail {
		sentinel.TraceError(e, bizErr)
	}
	e.Exit()
	outlier.VerifBarrier()
	return
}

// ---------- (1) exhaustive (n, p) pairs ----------

func pairs(c *props.Ctx) {
	var pcts []float64
	seen := map[float64]bool{}
	add := func(p float64) {
		if p >= 0 && p <= 1 && !seen[p] {
			seen[p] = true
			pcts = append(pcts, p)
		}
	}
	for m := 1; m <= 20; m++ {
		for k := 0; k <= m; k++ {
			add(float64(k) / float64(m))
		}
	}
	for j := 0; j <= 10; j++ {
		add(0.1 * float64(j))
	}
	add(0.3333333333333333)
	add(0.6666666666666666)
	sort.Float64s(pcts)
	maxN := 64
	if c.Quick() {
		maxN = 32
	}
	sc := chain()
	cnt := 0
	perSigs := map[string]int{}
	for pi, p := range pcts {
		if !c.Mine(pi) {
			continue
		}
		reset()
		// a second resource with a rule and nodes of its own, loaded by the same call: node
		// bookkeeping and the cap are per resource
		if _, err := outlier.LoadRules([]*outlier.Rule{mkRule("svc", p, false, false), mkRule("other", 1, false, false)}); err != nil {
			panic(err)
		}
		for k := 0; k < 3; k++ {
			call(sc, "other", fmt.Sprintf("o%d", k), k == 0)
		}
		if got := len(outlier.VerifNodes("other")); got != 3 {
			c.R.Violate(report.Violation{Signature: "C20:known-nodes-not-per-resource", What: fmt.Sprintf("resource 'other' was called on 3 nodes and knows %d", got), Scenario: "pairs", Replay: map[string]interface{}{"kind": "pair", "p": p}})
		}
		for n := 1; n <= maxN; n++ {
			// node n-1 fails once: its breaker opens (error count 1); all earlier ones are open already
			call(sc, "svc", fmt.Sprintf("n%02d", n-1), true)
			f, _ := call(sc, "svc", "observer", false) // a successful request to a node that stays healthy
			// known nodes now: n failing ones + "observer"
			total := n + 1
			if len(outlier.VerifNodes("svc")) != total {
				c.R.Violate(report.Violation{Signature: "C20:known-nodes-not-per-resource",
					What:     fmt.Sprintf("resource 'svc' was called on %d nodes and knows %d (another resource with 3 nodes of its own was loaded by the same call)", total, len(outlier.VerifNodes("svc"))),
					Scenario: "pairs", Replay: map[string]interface{}{"kind": "pair", "n": total, "p": p}})
				break
			}
			prod := new(big.Rat).Mul(new(big.Rat).SetFloat64(p), big.NewRat(int64(total), 1))
			floor := new(big.Int).Div(prod.Num(), prod.Denom()).Int64()
			cnt++
			c.R.Outcome(fmt.Sprintf("pair|%d|%d", len(f), floor))
			if int64(len(f)) > floor {
				// the known finding is exactly this: one node too many, where the float64 product rounds up to the
				// next integer although the exact product lies just below it; anything else is a different excess
				sig := "C20:filter-exceeds-floor:pairs"
				if int64(len(f)) == floor+1 && int64(float64(total)*p) == floor+1 {
					sig = "C20:filter-exceeds-floor:float-rounding"
				}
				perSigs[sig]++
				if perSigs[sig] <= 3 {
					c.R.Violate(report.Violation{Signature: sig,
						What:     fmt.Sprintf("%d known nodes, MaxEjectionPercent %v (exactly %s): %d nodes filtered, floor of the exact product %s is %d", total, p, new(big.Rat).SetFloat64(p).FloatString(20), len(f), prod.FloatString(20), floor),
						Scenario: "pairs", Replay: map[string]interface{}{"kind": "pair", "n": total, "p": p}})
				}
			}
			for _, a := range f {
				if a == "observer" {
					c.R.Violate(report.Violation{Signature: "C20:healthy-node-filtered", What: "the healthy node is in the filter list", Scenario: "pairs", Replay: map[string]interface{}{"kind": "pair", "n": total, "p": p}})
				}
			}
		}
	}
	c.R.Evaluations += int64(cnt)
	c.R.Transitions += int64(cnt)
	c.R.Bounds["exhaustive_pairs_this_shard_sum"] = cnt
}

// ---------- (2) histories ----------

type Config struct {
	Pct     float64 `json:"pct"`
	Active  bool    `json:"active_recovery"`
	Healthy bool    `json:"recovery_check_answer"`
	// FastConsumer: the background consumers process the slot's tasks before the request
	// completes (barrier between Entry and Exit); otherwise only after it (both are legal
	// environment answers for the asynchronous channels).
	FastConsumer bool `json:"fast_consumer"`
	// OneAttempt: MaxRecoveryAttempts is 1 instead of 2 (the active-recovery give-up is one timer away)
	OneAttempt bool `json:"one_recovery_attempt,omitempty"`
}

func (c Config) String() string { b, _ := json.Marshal(c); return string(b) }

type opDef struct {
	kind int // 0 req ok, 1 req fail, 2 tick, 3 fire oldest due timer, 4 reload identical rule, 5 reload with another percentage
	node int
	tick int64
}

var nodes = []string{"n0", "n1", "n2"}

func (o opDef) String() string {
	switch o.kind {
	case 0:
		return fmt.Sprintf("req(%s,ok)", nodes[o.node])
	case 1:
		return fmt.Sprintf("req(%s,fail)", nodes[o.node])
	case 2:
		return fmt.Sprintf("tick(%d)", o.tick)
	case 3:
		return "fire-due-timer"
	case 4:
		return "reload-same-rule"
	case 6:
		return "reload-of-resource-other-percentage"
	}
	return "reload-other-percentage"
}

const (
	stClosed = iota
	stHalfOpen
	stOpen
)

type mNode struct {
	known     bool
	state     int
	deadline  int64
	scheduled bool // the recycler watches it
	recovered bool // a successful completion (or reconnection) since it was scheduled
}

type scen struct {
	cfg Config
	pct float64
	ops []opDef
	now int64
	sc  *base.SlotChain
	m   [3]mNode
}

func (s *scen) Name() string        { return s.cfg.String() }
func (s *scen) NumOps() int         { return len(s.ops) }
func (s *scen) OpName(i int) string { return s.ops[i].String() }
func (s *scen) Enabled(i int) bool {
	if s.ops[i].kind == 3 {
		for _, t := range vtime.VerifPending() {
			if int64(t.DueMs) <= s.now {
				return true
			}
		}
		return false
	}
	return true
}

func (s *scen) Reset() {
	oneAttempt = s.cfg.OneAttempt
	reset()
	s.now = T0
	s.pct = s.cfg.Pct
	s.sc = chain()
	for i := range s.m {
		s.m[i] = mNode{}
	}
	if _, err := outlier.LoadRules([]*outlier.Rule{mkRule("svc", s.pct, s.cfg.Active, s.cfg.Healthy)}); err != nil {
		panic(err)
	}
}

func floorExact(p float64, n int) int64 {
	prod := new(big.Rat).Mul(new(big.Rat).SetFloat64(p), big.NewRat(int64(n), 1))
	return new(big.Int).Div(prod.Num(), prod.Denom()).Int64()
}

func (s *scen) Apply(i int) (string, string) {
	o := s.ops[i]
	switch o.kind {
	case 2:
		s.now += o.tick
		env.Clock.SetMs(s.now)
		return "", ""
	case 4, 5, 6:
		if o.kind == 5 || o.kind == 6 {
			// the other percentage: everything may be ejected - or, where that is the configured value, one third
			// (so that a reload that LOWERS the share exists from the initial state, too)
			alt := 1.0
			if s.cfg.Pct == 1.0 {
				alt = 0.34
			}
			if s.pct == s.cfg.Pct {
				s.pct = alt
			} else {
				s.pct = s.cfg.Pct
			}
		}
		if o.kind == 6 {
			// the per-resource load path
			if _, err := outlier.LoadRuleOfResource("svc", mkRule("svc", s.pct, s.cfg.Active, s.cfg.Healthy)); err != nil {
				return "", "reload failed: " + err.Error()
			}
		} else if _, err := outlier.LoadRules([]*outlier.Rule{mkRule("svc", s.pct, s.cfg.Active, s.cfg.Healthy)}); err != nil {
			return "", "reload failed: " + err.Error()
		}
		return "", s.nodesCheck(o)
	case 3:
		var due *vtime.VerifTimer
		for _, t := range vtime.VerifPending() {
			if int64(t.DueMs) <= s.now {
				t := t
				due = &t
				break
			}
		}
		before := map[string]bool{}
		for a := range outlier.VerifNodes("svc") {
			before[a] = true
		}
		vtime.VerifFire(due.ID)
		outlier.VerifBarrier()
		after := outlier.VerifNodes("svc")
		for j, a := range nodes {
			if before[a] && after[a] == nil {
				// the node was recycled by this timer
				if s.m[j].recovered {
					tag := "fast consumer"
					if !s.cfg.FastConsumer {
						tag = "slow consumer: the recycler task of the flagging request was processed only after the request had completed"
					}
					return "fired", fmt.Sprintf("t=+%d: node %s was recycled although it completed a request successfully after it was flagged as an outlier [%s]", s.now-T0, a, tag)
				}
				s.m[j] = mNode{}
			}
		}
		// reference bookkeeping: a recycle timer that found the node recovered stops watching it;
		// a recovery timer (active mode) reconnects: model both through the implementation's own
		// recycler status (read back) rather than guessing which timer it was
		st := outlier.VerifRecyclerStatus("svc")
		for j, a := range nodes {
			if _, ok := st[a]; !ok {
				s.m[j].scheduled, s.m[j].recovered = false, false
			} else if st[a] {
				s.m[j].recovered = true
			}
		}
		if s.cfg.Active {
			// a successful reconnection closes / probes the node's breaker: resynchronise the state
			for j, a := range nodes {
				if b := after[a]; b != nil {
					s.m[j].state = int(b.CurrentState())
				}
			}
		}
		return "fired", s.nodesCheck(o)
	}
	// request to node j
	fail := o.kind == 1
	// reference: what the admission sees
	known := 0
	for _, n := range s.m {
		if n.known {
			known++
		}
	}
	var wantRejecting, wantHalf []string
	for j := range s.m {
		n := &s.m[j]
		if !n.known {
			continue
		}
		switch n.state {
		case stOpen:
			if s.now >= n.deadline {
				n.state = stHalfOpen
				if !s.cfg.Active {
					wantHalf = append(wantHalf, nodes[j])
				}
			} else {
				wantRejecting = append(wantRejecting, nodes[j])
			}
		case stHalfOpen:
			wantRejecting = append(wantRejecting, nodes[j])
		}
	}
	for _, a := range wantRejecting {
		for j := range nodes {
			if nodes[j] == a && !s.m[j].scheduled {
				s.m[j].scheduled, s.m[j].recovered = true, false
			}
		}
	}
	filters, halfs := call(s.sc, "svc", nodes[o.node], fail, s.cfg.FastConsumer)
	sort.Strings(filters)
	sort.Strings(halfs)
	sort.Strings(wantHalf)
	obs := fmt.Sprintf("%v=f%v,h%v", o, filters, halfs)
	limit := floorExact(s.pct, known)
	if int64(len(filters)) > limit {
		return obs, fmt.Sprintf("t=+%d %v: %d nodes filtered of %d known with MaxEjectionPercent %v (floor %d)", s.now-T0, o, len(filters), known, s.pct, limit)
	}
	for _, a := range filters {
		ok := false
		for _, w := range wantRejecting {
			if w == a {
				ok = true
			}
		}
		if !ok {
			return obs, fmt.Sprintf("t=+%d %v: node %s is filtered although its breaker does not reject traffic (rejecting: %v)", s.now-T0, o, a, wantRejecting)
		}
	}
	if fmt.Sprint(halfs) != fmt.Sprint(wantHalf) {
		return obs, fmt.Sprintf("t=+%d %v: half-open nodes reported %v, passively probed nodes are %v", s.now-T0, o, halfs, wantHalf)
	}
	// completion on node j
	n := &s.m[o.node]
	if !n.known {
		n.known, n.state = true, stClosed
	}
	switch n.state {
	case stClosed:
		if fail {
			n.state, n.deadline = stOpen, s.now+retryMs
		}
	case stHalfOpen:
		if fail {
			n.state, n.deadline = stOpen, s.now+retryMs
		} else {
			n.state = stClosed
		}
	}
	if !fail && n.scheduled {
		n.recovered = true
	}
	return obs, s.nodesCheck(o)
}

// nodesCheck: breaker state of every known node equals the reference.
func (s *scen) nodesCheck(o opDef) string {
	impl := outlier.VerifNodes("svc")
	for j, a := range nodes {
		b := impl[a]
		if (b != nil) != s.m[j].known {
			return fmt.Sprintf("after %v: node %s known=%v in the implementation, %v in the reference", o, a, b != nil, s.m[j].known)
		}
		if b != nil && int(b.CurrentState()) != s.m[j].state {
			return fmt.Sprintf("after %v: breaker of node %s is %d, reference %d", o, a, b.CurrentState(), s.m[j].state)
		}
	}
	return ""
}

func (s *scen) Key() string {
	var b strings.Builder
	fmt.Fprintf(&b, "p%v|", s.pct)
	// implementation side: the percentage the module reports as in force (two load paths reach the same
	// reference state; they are the same state only if the module agrees)
	for _, r := range outlier.GetRules() {
		fmt.Fprintf(&b, "in-force:%s=%v|", r.Resource, r.MaxEjectionPercent)
	}
	for _, n := range s.m {
		d := int64(0)
		if n.state == stOpen {
			d = n.deadline - s.now
			if d < 0 {
				d = -1
			}
		}
		fmt.Fprintf(&b, "%v,%d,%d,%v,%v;", n.known, n.state, d, n.scheduled, n.recovered)
	}
	for _, t := range vtime.VerifPending() {
		d := int64(t.DueMs) - s.now
		if d < 0 {
			d = -1
		}
		fmt.Fprintf(&b, "T%d,", d)
	}
	fmt.Fprintf(&b, "|%v", outlier.VerifRecyclerStatus("svc"))
	return b.String()
}

func mkOps() []opDef {
	var ops []opDef
	for j := range nodes {
		ops = append(ops, opDef{kind: 0, node: j}, opDef{kind: 1, node: j})
	}
	ops = append(ops, opDef{kind: 2, tick: retryMs}, opDef{kind: 2, tick: recycleS * 1000}, opDef{kind: 3}, opDef{kind: 4}, opDef{kind: 5}, opDef{kind: 6})
	return ops
}

func configs() []Config {
	return []Config{
		{Pct: 0.34, Active: false, Healthy: false, FastConsumer: false}, {Pct: 0.5, Active: false, Healthy: false, FastConsumer: false}, {Pct: 0.67, Active: false, Healthy: false, FastConsumer: false}, {Pct: 1.0, Active: false, Healthy: false, FastConsumer: false}, {Pct: 0, Active: false, Healthy: false, FastConsumer: false},
		{Pct: 0.5, Active: true, Healthy: true, FastConsumer: false}, {Pct: 0.5, Active: true, Healthy: false, FastConsumer: false}, {Pct: 0.67, Active: true, Healthy: true, FastConsumer: false},
		{Pct: 0.34, Active: false, Healthy: false, FastConsumer: true}, {Pct: 0.67, Active: false, Healthy: false, FastConsumer: true}, {Pct: 1.0, Active: false, Healthy: false, FastConsumer: true}, {Pct: 0, Active: false, Healthy: false, FastConsumer: true}, {Pct: 0.5, Active: true, Healthy: true, FastConsumer: true}, {Pct: 0.5, Active: true, Healthy: false, FastConsumer: true},
		{Pct: 0.5, Active: true, Healthy: false, FastConsumer: true, OneAttempt: true}, {Pct: 0.34, Active: true, Healthy: false, FastConsumer: true, OneAttempt: true},
	}
}

func signature(what string) string {
	switch {
	case strings.Contains(what, "nodes filtered of"):
		return "C20:filter-exceeds-floor"
	case strings.Contains(what, "does not reject traffic"):
		return "C20:filtered-node-not-rejecting"
	case strings.Contains(what, "half-open nodes reported"):
		return "C20:half-open-list"
	case strings.Contains(what, "was recycled although"):
		if strings.Contains(what, "slow consumer") {
			return "C20:recovered-node-recycled:completion-before-recycler-task"
		}
		return "C20:recovered-node-recycled"
	case strings.Contains(what, "breaker of node"), strings.Contains(what, "known="):
		return "C20:node-state"
	}
	return "C20:other"
}

type replayDoc struct {
	Kind string   `json:"kind"`
	Cfg  Config   `json:"cfg"`
	Path []int    `json:"path"`
	Ops  []string `json:"ops"`
}

func run(c *props.Ctx) {
	pairs(c)
	runConc(c)
	depth := 6
	if !c.Quick() {
		depth = 8
	}
	c.R.Bounds["history_depth"] = depth
	cfgs := configs()
	for i, cfg := range cfgs {
		if !c.Mine(i) {
			continue
		}
		if c.Expired() {
			c.R.Cap("time budget reached")
			break
		}
		s := &scen{cfg: cfg, ops: mkOps()}
		d := depth
		if cfg.OneAttempt && d < 7 {
			d = 7 // the give-up of the active recovery is seven operations away
		}
		res := seq.Explore(s, seq.Options{Depth: d, Deadline: c.Deadline, Classify: signature, MaxStates: 1000000})
		c.R.States += int64(res.States)
		c.R.Transitions += res.Transitions
		c.R.Evaluations += res.Transitions
		c.R.Traces += res.Transitions
		for o := range res.Obs {
			c.R.Outcome(fmt.Sprintf("%d|%s", i, o))
		}
		if res.CapHit != "" && res.CapHit != "violation limit" {
			c.R.Cap(res.CapHit)
		}
		c.R.Sample(map[string]interface{}{"config": cfg, "states": res.States, "transitions": res.Transitions, "depth": res.Depth, "path": res.SamplePath})
		for _, v := range res.Violations {
			c.R.Violate(report.Violation{Signature: signature(v.What), What: v.What, Scenario: cfg.String() + " " + strings.Join(v.Ops, " "),
				Replay: replayDoc{Kind: "history", Cfg: cfg, Path: v.Path, Ops: v.Ops}})
		}
	}
}

func replay(c *props.Ctx, raw json.RawMessage) (bool, string) {
	var d replayDoc
	if err := json.Unmarshal(raw, &d); err != nil {
		return false, err.Error()
	}
	if d.Kind == "conc" {
		var cr concReplay
		_ = json.Unmarshal(raw, &cr)
		return replayConc(cr.Choices)
	}
	if d.Kind != "history" {
		return false, "pair cases are re-evaluated by the quick check itself"
	}
	s := &scen{cfg: d.Cfg, ops: mkOps()}
	w := seq.Replay(s, d.Path)
	return w != "", w
}

func init() {
	props.Register(&props.Prop{ID: "C20", Run: run, Replay: replay})
}
