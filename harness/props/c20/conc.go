package c20

import (
	"fmt"

	"github.com/alibaba/sentinel-golang/core/outlier"
	"github.com/alibaba/sentinel-golang/verifshim/vsched"
	vtime "github.com/alibaba/sentinel-golang/verifshim/vtime"

	"verifharness/engine/sched"
	"verifharness/env"
	"verifharness/props"
	"verifharness/report"
)

// Engine A: the recycle timer of a flagged node fires while a successful completion on that node is being
// acknowledged. All interleavings at lock / atomic granularity (the recycler's mutex and the node table's
// lock are shimmed). Either order is fine; what must not happen is "the success was acknowledged while the
// node was still known, and the node was recycled afterwards".
type recycleScen struct {
	timerID    int
	ackedKnown bool // the node was known when the acknowledgement returned
	done       [2]bool
}

func (s *recycleScen) setup() {
	reset()
	if _, err := outlier.LoadRules([]*outlier.Rule{mkRule("svc", 1.0, false, false)}); err != nil {
		panic(err)
	}
	sc := chain()
	call(sc, "svc", "n0", true, true) // n0 fails: its breaker opens
	call(sc, "svc", "n1", false, true)
	// the next request sees n0 rejecting and hands it to the recycler
	call(sc, "svc", "n1", false, true)
	env.Clock.SetMs(T0 + recycleS*1000)
	s.timerID = -1
	for _, t := range vtime.VerifPending() {
		if int64(t.DueMs) <= T0+recycleS*1000 {
			s.timerID = t.ID
		}
	}
	if s.timerID < 0 {
		panic("harness: no recycle timer is due for the flagged node")
	}
	if outlier.VerifNodes("svc")["n0"] == nil {
		panic("harness: the flagged node is not known")
	}
	s.ackedKnown = false
	s.done = [2]bool{}
}

func (s *recycleScen) threads() []func() {
	return []func(){
		func() { vtime.VerifFire(s.timerID); s.done[0] = true },
		func() {
			outlier.VerifRecover("svc", "n0")
			s.ackedKnown = outlier.VerifNodes("svc")["n0"] != nil
			s.done[1] = true
		},
	}
}

func (s *recycleScen) check(x *vsched.Exec) (string, string) {
	if !s.done[0] || !s.done[1] {
		return "UNFINISHED", "a thread did not finish"
	}
	known := outlier.VerifNodes("svc")["n0"] != nil
	out := fmt.Sprintf("acked-while-known=%v known-at-the-end=%v", s.ackedKnown, known)
	if s.ackedKnown && !known {
		return out, "node n0 was recycled although it completed a request successfully (acknowledged while the node was still known) before the recycling removed it"
	}
	return out, ""
}

type concReplay struct {
	Kind    string `json:"kind"`
	Choices []int  `json:"choices"`
}

func runConc(c *props.Ctx) {
	if !c.Mine(0) {
		return
	}
	s := &recycleScen{}
	scn := &sched.Scenario{Name: "recycle timer || acknowledged success", Setup: s.setup, Threads: s.threads, Check: s.check, MaxSteps: 20000}
	res := sched.Explore(scn, sched.Options{Bound: 3, Deadline: c.Deadline, MaxExecs: 2000000})
	c.R.Evaluations += int64(res.Execs)
	c.R.Traces += int64(res.Execs)
	c.R.Transitions += res.Steps
	for o := range res.Outcomes {
		c.R.Outcome("conc|" + o)
	}
	c.R.Bounds["concurrent_scenario"] = "recycle timer || acknowledged success on the flagged node, all interleavings with <= 3 preemptions"
	if res.HarnessErr != "" {
		c.R.HarnessError("recycle scenario: " + res.HarnessErr)
	}
	if res.CapHit != "" {
		c.R.Cap(res.CapHit)
	}
	c.R.Sample(map[string]interface{}{"concurrent": scn.Name, "schedules": res.Execs, "outcomes": len(res.Outcomes)})
	for _, v := range res.Violations {
		c.R.Violate(report.Violation{Signature: "C20:recovered-node-recycled:concurrent", What: v.What, Scenario: scn.Name,
			Replay: concReplay{Kind: "conc", Choices: v.Choices}})
	}
}

func replayConc(choices []int) (bool, string) {
	s := &recycleScen{}
	scn := &sched.Scenario{Name: "recycle timer || acknowledged success", Setup: s.setup, Threads: s.threads, Check: s.check, MaxSteps: 20000}
	_, w := sched.Replay(scn, choices, nil)
	return w != "", w
}
