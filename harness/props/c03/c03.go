// Package c03: the circuit breaker trips, blocks and recovers exactly as specified.
//
// Engine B: per breaker configuration (strategy x threshold x minimum amount x retry timeout x
// window geometry x probe number, optionally a second breaker on the resource), a BFS over all
// time-stamped histories of request starts, completions (ok / error, slow by virtual
// duration) and clock advances, through the real api.Entry, against a three-state reference
// machine over a list-of-completions window. Listener callbacks and the breakers' private
// state are compared after every operation.
package c03

import (
	"encoding/json"
	"errors"
	"fmt"
	"strings"

	sentinel "github.com/alibaba/sentinel-golang/api"
	"github.com/alibaba/sentinel-golang/core/base"
	cb "github.com/alibaba/sentinel-golang/core/circuitbreaker"

	"verifharness/engine/seq"
	"verifharness/env"
	"verifharness/props"
	"verifharness/report"
)

type BSpec struct {
	Strategy  int     `json:"strategy"` // 0 slow ratio, 1 error ratio, 2 error count
	Threshold float64 `json:"threshold"`
	MinReq    uint64  `json:"min_req"`
	Retry     uint32  `json:"retry"`
	Interval  uint32  `json:"interval"`
	Buckets   uint32  `json:"buckets"`
	ProbeNum  uint64  `json:"probe_num"`
}

const maxAllowedRt = 3

type Config struct {
	B []BSpec `json:"breakers"`
	// ReloadAlt > 0: the alphabet has a reload operation that replaces breaker #0's rule by one with
	// the threshold toggled between its own and ReloadAlt (statistic parameters unchanged)
	ReloadAlt float64 `json:"reload_alt_threshold,omitempty"`
	// Recovered: the exploration does not start from a new breaker but after one complete round (tripped by a
	// failing request, retry timeout, the required number of successful probes: closed again)
	Recovered bool `json:"after_one_recovery,omitempty"`
}

func (c Config) String() string { b, _ := json.Marshal(c); return string(b) }

type opDef struct {
	kind int // 0 start, 1 done ok, 2 done err, 3 tick, 4 reload of rule #0 with the other threshold
	slot int
	tick int64
}

func (o opDef) String() string {
	switch o.kind {
	case 0:
		return "start"
	case 1:
		return fmt.Sprintf("done(%d,ok)", o.slot)
	case 2:
		return fmt.Sprintf("done(%d,err)", o.slot)
	}
	if o.kind == 4 {
		return "reload(#0,threshold toggled)"
	}
	return fmt.Sprintf("tick(%d)", o.tick)
}

const (
	stClosed = iota
	stHalfOpen
	stOpen
)

var stName = []string{"Closed", "HalfOpen", "Open"}

type compl struct {
	t   int64
	bad bool
}

type mBreaker struct {
	spec     BSpec
	state    int
	deadline int64
	probeCnt uint64
	events   []compl
	bl       int64
}

type liveReq struct {
	e       *base.SentinelEntry
	start   int64
	probeOf uint32 // bit i: this request is a probe of breaker i
}

type trans struct {
	idx        int
	prev, next int
}

type listener struct{ s *scen }

func (l listener) idx(r cb.Rule) int {
	for i, x := range l.s.rules {
		if x.Id == r.Id {
			return i
		}
	}
	return -1
}
func (l listener) OnTransformToClosed(prev cb.State, rule cb.Rule) {
	l.s.log = append(l.s.log, trans{l.idx(rule), int(prev), stClosed})
}
func (l listener) OnTransformToOpen(prev cb.State, rule cb.Rule, snapshot interface{}) {
	l.s.log = append(l.s.log, trans{l.idx(rule), int(prev), stOpen})
}
func (l listener) OnTransformToHalfOpen(prev cb.State, rule cb.Rule) {
	l.s.log = append(l.s.log, trans{l.idx(rule), int(prev), stHalfOpen})
}

const maxLive = 3
const T0 = 1700000000003

type scen struct {
	cfg   Config
	ops   []opDef
	rules []*cb.Rule
	m     []*mBreaker
	live  [maxLive]*liveReq
	now   int64
	log   []trans
	// prefixBad: a violation met while driving the breaker through its first recovery round (Config.Recovered)
	prefixBad string
}

func (s *scen) Name() string        { return s.cfg.String() }
func (s *scen) NumOps() int         { return len(s.ops) }
func (s *scen) OpName(i int) string { return s.ops[i].String() }

func (s *scen) Enabled(i int) bool {
	o := s.ops[i]
	switch o.kind {
	case 0:
		for _, l := range s.live {
			if l == nil {
				return true
			}
		}
		return false
	case 1, 2:
		return s.live[o.slot] != nil
	}
	return true
}

var bizErr = errors.New("biz")

func (s *scen) Reset() {
	env.ResetAll(env.DefaultGeometry, T0)
	s.now = T0
	s.log = s.log[:0]
	s.rules = s.rules[:0]
	s.m = s.m[:0]
	for i := range s.live {
		s.live[i] = nil
	}
	for i, b := range s.cfg.B {
		r := &cb.Rule{Id: fmt.Sprint(i), Resource: "r", Strategy: cb.Strategy(b.Strategy), RetryTimeoutMs: b.Retry, MinRequestAmount: b.MinReq,
			StatIntervalMs: b.Interval, StatSlidingWindowBucketCount: b.Buckets, MaxAllowedRtMs: maxAllowedRt, Threshold: b.Threshold, ProbeNum: b.ProbeNum}
		s.rules = append(s.rules, r)
		bc := int64(b.Buckets)
		if bc == 0 || int64(b.Interval)%bc != 0 {
			bc = 1
		}
		s.m = append(s.m, &mBreaker{spec: b, bl: int64(b.Interval) / bc})
	}
	if _, err := cb.LoadRules(s.rules); err != nil {
		panic(err)
	}
	if len(cb.VerifBreakers("r")) != len(s.rules) {
		panic("harness: a breaker rule of the configuration was not accepted")
	}
	cb.RegisterStateChangeListeners(listener{s})
	s.prefixBad = ""
	if s.cfg.Recovered {
		find := func(kind, slot int, tick int64) int {
			for i, o := range s.ops {
				if o.kind == kind && (kind == 3 && o.tick == tick || kind != 3 && (kind == 0 || o.slot == slot)) {
					return i
				}
			}
			panic("harness: prefix operation not in the alphabet")
		}
		b := s.cfg.B[0]
		seq := []int{find(0, 0, 0), find(2, 0, 0), find(3, 0, int64(b.Retry))}
		n := int(b.ProbeNum)
		if n == 0 {
			n = 1
		}
		for k := 0; k < n; k++ {
			seq = append(seq, find(0, 0, 0), find(1, 0, 0))
		}
		for _, i := range seq {
			if o := s.ops[i]; (o.kind == 1 || o.kind == 2) && s.live[o.slot] == nil {
				panic("harness: the recovery round of configuration " + s.cfg.String() + " cannot be driven (a request of it was rejected)")
			}
			if _, v := s.Apply(i); v != "" && s.prefixBad == "" {
				s.prefixBad = "in the first recovery round: " + v
			}
		}
	}
}

func (b *mBreaker) window(now int64) (bad, total uint64) {
	cur := now - now%b.bl
	lo := cur - int64(b.spec.Interval) + b.bl
	for _, e := range b.events {
		st := e.t - e.t%b.bl
		if st >= lo && st <= cur {
			total++
			if e.bad {
				bad++
			}
		}
	}
	return
}

func (b *mBreaker) reached(bad, total uint64) bool {
	if total < b.spec.MinReq {
		return false
	}
	if b.spec.Strategy == 2 {
		return float64(bad) >= b.spec.Threshold
	}
	return float64(bad) >= b.spec.Threshold*float64(total) // thresholds of the grid are exact binary fractions
}

func (s *scen) Apply(i int) (string, string) {
	if s.prefixBad != "" {
		v := s.prefixBad
		s.prefixBad = ""
		return "", v
	}
	o := s.ops[i]
	logStart := len(s.log)
	var want []trans
	obs := o.String()
	note := ""
	switch o.kind {
	case 3:
		s.now += o.tick
		env.Clock.SetMs(s.now)
	case 4:
		// a modified rule with unchanged statistic parameters: a new breaker (Closed, no probes) of the
		// rule's own strategy that keeps the accumulated statistics; the other breakers are untouched
		// and no listener hears anything
		nr := *s.rules[0]
		if nr.Threshold == s.cfg.B[0].Threshold {
			nr.Threshold = s.cfg.ReloadAlt
		} else {
			nr.Threshold = s.cfg.B[0].Threshold
		}
		s.rules[0] = &nr
		if _, err := cb.LoadRules(s.rules); err != nil {
			return obs, "reload failed: " + err.Error()
		}
		if len(cb.VerifBreakers("r")) != len(s.rules) {
			return obs, "after the reload the resource does not have one breaker per rule"
		}
		b := s.m[0]
		b.spec.Threshold, b.state, b.probeCnt, b.deadline = nr.Threshold, stClosed, 0, 0
		for _, l := range s.live {
			if l != nil {
				l.probeOf &^= 1
			}
		}
	case 0:
		// reference decision
		blockedBy := -1
		var probeOf uint32
		var tentative []int // breakers this request moved to half-open
		for bi, b := range s.m {
			switch b.state {
			case stClosed:
			case stOpen:
				if s.now >= b.deadline {
					b.state = stHalfOpen
					want = append(want, trans{bi, stOpen, stHalfOpen})
					probeOf |= 1 << uint(bi)
					tentative = append(tentative, bi)
				} else {
					blockedBy = bi
				}
			case stHalfOpen:
				if b.spec.ProbeNum > 0 {
					probeOf |= 1 << uint(bi)
				} else {
					blockedBy = bi
				}
			}
			if blockedBy >= 0 {
				break
			}
		}
		if blockedBy >= 0 {
			// a probe blocked further down the list rolls its breaker back to Open, no new timeout
			for _, bi := range tentative {
				s.m[bi].state = stOpen
				want = append(want, trans{bi, stHalfOpen, stOpen})
			}
		}
		e, blk := sentinel.Entry("r")
		if blk != nil {
			obs += "=B"
			if blk.BlockType() != base.BlockTypeCircuitBreaking {
				return obs, fmt.Sprintf("t=%d start: blocked with type %v", s.now, blk.BlockType())
			}
			if blockedBy < 0 {
				return obs, fmt.Sprintf("t=%d start: rejected by %v although the reference machine admits it (%s)", s.now, blk.TriggeredRule(), s.describe())
			}
			if tr, _ := blk.TriggeredRule().(*cb.Rule); tr != s.rules[blockedBy] {
				return obs, fmt.Sprintf("t=%d start: rejected by rule %v, expected breaker #%d", s.now, blk.TriggeredRule(), blockedBy)
			}
		} else {
			obs += "=P"
			if blockedBy >= 0 {
				e.Exit()
				return obs, fmt.Sprintf("t=%d start: admitted although breaker #%d rejects (%s)", s.now, blockedBy, s.describe())
			}
			for k := range s.live {
				if s.live[k] == nil {
					s.live[k] = &liveReq{e, s.now, probeOf}
					break
				}
			}
		}
	case 1, 2:
		l := s.live[o.slot]
		s.live[o.slot] = nil
		rt := s.now - l.start
		isErr := o.kind == 2
		for bi, b := range s.m {
			bad := isErr
			if b.spec.Strategy == 0 {
				bad = rt > maxAllowedRt
			}
			b.events = append(b.events, compl{s.now, bad})
			switch b.state {
			case stClosed:
				if bd, tot := b.window(s.now); b.reached(bd, tot) {
					b.state, b.deadline = stOpen, s.now+int64(b.spec.Retry)
					want = append(want, trans{bi, stClosed, stOpen})
				}
			case stHalfOpen:
				if l.probeOf&(1<<uint(bi)) == 0 {
					note = "straggler" // not a probe of this breaker: the statement gives it no say
					break
				}
				if bad {
					b.state, b.deadline, b.probeCnt = stOpen, s.now+int64(b.spec.Retry), 0
					want = append(want, trans{bi, stHalfOpen, stOpen})
				} else {
					b.probeCnt++
					if b.spec.ProbeNum == 0 || b.probeCnt >= b.spec.ProbeNum {
						b.state, b.probeCnt, b.events = stClosed, 0, nil
						want = append(want, trans{bi, stHalfOpen, stClosed})
					}
				}
			}
		}
		if isErr {
			l.e.Exit(base.WithError(bizErr))
		} else {
			l.e.Exit()
		}
	}
	// listener log = exactly the reference transitions of this operation
	got := s.log[logStart:]
	if fmt.Sprint(got) != fmt.Sprint(want) {
		tag := ""
		if note != "" {
			tag = " [" + note + " completion while half-open]"
		}
		return obs, fmt.Sprintf("t=%d %v: listeners heard %s, reference transitions %s%s (%s)", s.now, o, fmtTrans(got), fmtTrans(want), tag, s.cfg)
	}
	// private state of every breaker = reference state
	for bi, x := range cb.VerifBreakers("r") {
		d := cb.VerifDump(x)
		b := s.m[bi]
		if int(d.State) != b.state {
			return obs, fmt.Sprintf("t=%d %v: breaker #%d is %s, reference %s", s.now, o, bi, stName[d.State], stName[b.state])
		}
		if b.state == stHalfOpen && d.CurProbe != b.probeCnt {
			tag := ""
			if note != "" {
				tag = " [" + note + " completion while half-open]"
			}
			return obs, fmt.Sprintf("t=%d %v: breaker #%d counts %d successful probes, reference %d%s", s.now, o, bi, d.CurProbe, b.probeCnt, tag)
		}
	}
	if len(got) > 0 {
		obs += fmtTrans(got)
	}
	return obs, ""
}

func fmtTrans(ts []trans) string {
	var p []string
	for _, t := range ts {
		p = append(p, fmt.Sprintf("#%d:%s->%s", t.idx, stName[t.prev], stName[t.next]))
	}
	return "[" + strings.Join(p, " ") + "]"
}

func (s *scen) describe() string {
	var p []string
	for bi, b := range s.m {
		bd, tot := b.window(s.now)
		p = append(p, fmt.Sprintf("#%d %s deadline=%+d bad/total=%d/%d", bi, stName[b.state], b.deadline-s.now, bd, tot))
	}
	return strings.Join(p, "; ")
}

func (s *scen) Key() string {
	var sb strings.Builder
	for bi, b := range s.m {
		I := int64(b.spec.Interval)
		fmt.Fprintf(&sb, "%d,%d,%v,", b.state, b.probeCnt, b.spec.Threshold)
		if b.state == stOpen {
			d := b.deadline - s.now
			if d < 0 {
				d = -1
			}
			fmt.Fprintf(&sb, "d%d,", d)
		}
		fmt.Fprintf(&sb, "ph%d|", s.now%I)
		cur := s.now - s.now%b.bl
		agg := map[int64][2]uint64{}
		for _, e := range b.events {
			st := e.t - e.t%b.bl
			if st >= cur-I {
				a := agg[st-cur]
				a[1]++
				if e.bad {
					a[0]++
				}
				agg[st-cur] = a
			}
		}
		for off := -I; off <= 0; off += b.bl {
			if a, ok := agg[off]; ok {
				fmt.Fprintf(&sb, "%d=%v;", off, a)
			}
		}
		d := cb.VerifDump(cb.VerifBreakers("r")[bi])
		nr := int64(d.NextRetry) - s.now
		if nr < 0 {
			nr = -1
		}
		fmt.Fprintf(&sb, "/i%d,%d,%d:", d.State, nr, d.CurProbe)
		for _, x := range d.Buckets {
			if x.Total != 0 || x.Bad != 0 {
				fmt.Fprintf(&sb, "%d=%d/%d;", int64(x.Start)-s.now, x.Bad, x.Total)
			} else {
				fmt.Fprintf(&sb, "%d;", int64(x.Start)-s.now)
			}
		}
		sb.WriteString("||")
	}
	for _, l := range s.live {
		if l == nil {
			sb.WriteString("_")
		} else {
			age := s.now - l.start
			if age > maxAllowedRt {
				age = maxAllowedRt + 1
			}
			fmt.Fprintf(&sb, "L%d,%d", age, l.probeOf)
		}
	}
	return sb.String()
}

func mkOps(cfg Config) []opDef {
	ops := []opDef{{kind: 0}}
	if cfg.ReloadAlt > 0 {
		ops = append(ops, opDef{kind: 4})
	}
	for k := 0; k < maxLive; k++ {
		ops = append(ops, opDef{kind: 1, slot: k})
	}
	for k := 0; k < maxLive; k++ {
		ops = append(ops, opDef{kind: 2, slot: k})
	}
	seen := map[int64]bool{}
	add := func(d int64) {
		if d > 0 && !seen[d] {
			seen[d] = true
			ops = append(ops, opDef{kind: 3, tick: d})
		}
	}
	add(1)
	add(4)
	for _, b := range cfg.B {
		if b.Strategy == 0 {
			add(maxAllowedRt) // a response time exactly on the limit is not slow; 4 is
		}
	}
	for _, b := range cfg.B {
		bc := int64(b.Buckets)
		if bc == 0 || int64(b.Interval)%bc != 0 {
			bc = 1
		}
		add(int64(b.Retry) - 1)
		add(int64(b.Retry))
		add(int64(b.Interval) / bc)
		add(int64(b.Interval))
		add(int64(b.Interval) + 1)
	}
	return ops
}

func configs(quick bool) []Config {
	var out []Config
	type geo struct{ iv, bk uint32 }
	geos := []geo{{10, 1}, {20, 2}, {20, 3}}
	for strat := 0; strat < 3; strat++ {
		ths := []float64{0, 0.5, 1}
		if strat == 2 {
			ths = []float64{1, 2, 1.5}
		}
		for _, th := range ths {
			for _, mr := range []uint64{0, 2, 3} {
				for _, rt := range []uint32{5, 10} {
					for gi, g := range geos {
						for _, pn := range []uint64{0, 1, 2} {
							if quick {
								// quick: a slice of the grid that still varies every dimension
								if (mr == 3 && pn == 2) || (rt == 10 && gi == 2) || (th == 0 && mr == 0 && pn != 0) {
									continue
								}
								if (int(mr)+int(rt)+gi+int(pn)+strat)%2 == 1 {
									continue
								}
							}
							out = append(out, Config{B: []BSpec{{strat, th, mr, rt, g.iv, g.bk, pn}}})
						}
					}
				}
			}
		}
	}
	// thresholds off the round values: error counts with a fraction below one half (rounding and truncation differ
	// from "reaches the threshold"), ratios of one quarter
	for _, b := range []BSpec{{2, 0.25, 0, 5, 10, 1, 0}, {2, 2.25, 0, 5, 10, 1, 0}, {2, 2.25, 2, 10, 20, 2, 1}, {0, 0.25, 2, 5, 10, 1, 0}, {1, 0.25, 3, 5, 20, 2, 1}} {
		out = append(out, Config{B: []BSpec{b}})
	}
	// starting after one complete recovery round (probe counters, cleared statistics and deadlines of a second round)
	// (configurations that one failing request trips)
	for _, b := range []BSpec{{2, 1, 0, 5, 10, 1, 2}, {1, 0.5, 0, 5, 20, 2, 2}, {2, 1, 0, 10, 20, 2, 3}} {
		out = append(out, Config{B: []BSpec{b}, Recovered: true})
	}
	// two breakers on the resource: a probe of the first can be blocked by the second
	two := [][]BSpec{
		{{1, 0.5, 2, 5, 10, 1, 0}, {2, 1, 0, 10, 20, 2, 0}},
		{{2, 1, 0, 5, 10, 1, 0}, {1, 1, 2, 10, 20, 2, 1}},
		{{0, 0.5, 2, 5, 20, 2, 1}, {2, 2, 0, 10, 10, 1, 0}},
		{{2, 1, 0, 5, 10, 1, 0}, {2, 1, 0, 10, 10, 1, 0}},
	}
	for _, t := range two {
		out = append(out, Config{B: t})
	}
	// reloads of a modified rule in the middle of a history
	out = append(out,
		Config{B: []BSpec{{2, 2, 0, 5, 20, 2, 0}}, ReloadAlt: 1},
		Config{B: []BSpec{{2, 1, 2, 5, 10, 1, 1}}, ReloadAlt: 3},
		Config{B: []BSpec{{1, 0.5, 2, 5, 20, 2, 0}}, ReloadAlt: 1},
		Config{B: []BSpec{{0, 0.5, 2, 5, 20, 2, 0}}, ReloadAlt: 1},
		Config{B: []BSpec{{2, 2, 0, 5, 10, 1, 0}, {1, 0.5, 2, 10, 20, 2, 0}}, ReloadAlt: 1},
	)
	return out
}

func signature(what string) string {
	switch {
	case strings.Contains(what, "straggler"):
		return "C03:straggler-decides-probe"
	case strings.Contains(what, "admitted although"):
		return "C03:admitted-while-rejecting"
	case strings.Contains(what, "rejected by"):
		return "C03:spurious-rejection"
	case strings.Contains(what, "listeners heard"):
		if strings.Contains(what, `"strategy":2`) && strings.Contains(what, `"threshold":1.5`) {
			return "C03:transition-mismatch:fractional-error-count"
		}
		return "C03:transition-mismatch"
	case strings.Contains(what, "reference"):
		return "C03:state-mismatch"
	}
	return "C03:other"
}

type replayDoc struct {
	Cfg  Config   `json:"cfg"`
	Path []int    `json:"path"`
	Ops  []string `json:"ops"`
}

func run(c *props.Ctx) {
	depth, depth2 := 7, 6
	if !c.Quick() {
		depth, depth2 = 10, 8
	}
	c.R.Bounds["depth_single_breaker"] = depth
	c.R.Bounds["depth_two_breakers"] = depth2
	cfgs := configs(c.Quick())
	c.R.Bounds["configs"] = len(cfgs)
	for i, cfg := range cfgs {
		if !c.Mine(i) {
			continue
		}
		if c.Expired() {
			c.R.Cap("time budget reached before all configurations were explored")
			break
		}
		s := &scen{cfg: cfg, ops: mkOps(cfg)}
		d := depth
		if len(cfg.B) > 1 {
			d = depth2
		}
		res := seq.Explore(s, seq.Options{Depth: d, Deadline: c.Deadline, Classify: signature, MaxStates: 1500000})
		c.R.States += int64(res.States)
		c.R.Transitions += res.Transitions
		c.R.Evaluations += res.Transitions
		c.R.Traces += res.Transitions
		for o := range res.Obs {
			c.R.Outcome(fmt.Sprintf("%d|%s", i, o))
		}
		if res.CapHit != "" && res.CapHit != "violation limit" {
			c.R.Cap(res.CapHit)
		}
		if i%29 == 0 {
			c.R.Sample(map[string]interface{}{"config": cfg, "states": res.States, "transitions": res.Transitions, "depth": res.Depth, "path": res.SamplePath})
		}
		for _, v := range res.Violations {
			c.R.Violate(report.Violation{Signature: signature(v.What), What: v.What, Scenario: cfg.String() + " " + strings.Join(v.Ops, " "),
				Replay: replayDoc{Cfg: cfg, Path: v.Path, Ops: v.Ops}})
		}
	}
}

func replay(c *props.Ctx, raw json.RawMessage) (bool, string) {
	var d replayDoc
	if err := json.Unmarshal(raw, &d); err != nil {
		return false, err.Error()
	}
	s := &scen{cfg: d.Cfg, ops: mkOps(d.Cfg)}
	w := seq.Replay(s, d.Path)
	return w != "", w
}

func init() {
	props.Register(&props.Prop{ID: "C03", Run: run, Replay: replay})
}
