// Package c11: adaptive thresholds (warm-up, memory-adaptive) stay inside their envelope.
//
// Engine B: per warm-up configuration (threshold x period x cold factor) a BFS over demand
// programs (bursts, steady single-token demand, saturating demand, idle gaps) through the
// real api.Entry in virtual time, with envelope oracles on every step; and the exhaustive
// grid of memory-adaptive rules x memory readings.
package c11

import (
	"encoding/json"
	"fmt"
	"math"
	"sort"
	"strings"

	sentinel "github.com/alibaba/sentinel-golang/api"
	"github.com/alibaba/sentinel-golang/core/flow"
	"github.com/alibaba/sentinel-golang/core/system_metric"

	"verifharness/engine/seq"
	"verifharness/env"
	"verifharness/props"
	"verifharness/report"
)

type Config struct {
	T      float64 `json:"t"`
	Period uint32  `json:"period_s"`
	Cold   uint32  `json:"cold_factor"` // 0 => default (3)
	// IntervalMs: StatIntervalInMs of the rule (0 = default 1000): the threshold is a count per interval
	IntervalMs uint32 `json:"interval_ms,omitempty"`
	// Batch: tokens per request (0 = 1): every admitted request counts with its batch
	Batch uint32 `json:"batch,omitempty"`
}

func (c Config) batch() int64 {
	if c.Batch == 0 {
		return 1
	}
	return int64(c.Batch)
}

func (c Config) interval() int64 {
	if c.IntervalMs == 0 {
		return 1000
	}
	return int64(c.IntervalMs)
}

// bucketLen: the statistic is a view of the resource's 500 ms buckets where the interval allows it, otherwise a
// statistic of the rule's own with one bucket as long as the interval
func (c Config) bucketLen() int64 {
	if iv := c.interval(); iv%500 != 0 || iv > 10000 {
		return iv
	}
	return 500
}

func (c Config) String() string { b, _ := json.Marshal(c); return string(b) }
func (c Config) cold() float64 {
	if c.Cold <= 1 {
		return 3
	}
	return float64(c.Cold)
}

const (
	opBurst    = iota // k single-token requests at one instant
	opSteady          // one request every 100 ms for 1 s
	opIdle1           // idle 1 s
	opIdleLong        // idle long enough to cool down completely
	opSaturate        // saturating demand for 2*period+3 s, then the last second is judged
	opPatient         // steady single-token demand for period+2 s: must not be starved
	opIdleHuge        // idle just over 2^32 ms (49.7 days): a cold start like any other
)

var opNames = []string{"burst", "steady(1s)", "idle(1s)", "idle(long)", "saturate(2*period+3s)", "patient(period+2s)", "idle(2^32ms+704)"}

const T0 = int64(1700000000000)

type admit struct {
	t int64
}

type scen struct {
	cfg       Config
	now       int64
	adm       []admit
	idleSince int64 // time of the last admitted or attempted request
	fresh     bool  // nothing requested yet (cold start)
	rule      *flow.Rule
}

func (s *scen) Name() string        { return s.cfg.String() }
func (s *scen) NumOps() int         { return len(opNames) }
func (s *scen) OpName(i int) string { return opNames[i] }
func (s *scen) Enabled(i int) bool  { return true }

func (s *scen) Reset() {
	env.ResetAll(env.DefaultGeometry, T0)
	s.now = T0
	s.adm = s.adm[:0]
	s.fresh = true
	s.idleSince = T0
	s.rule = &flow.Rule{Resource: "a", TokenCalculateStrategy: flow.WarmUp, ControlBehavior: flow.Reject, Threshold: s.cfg.T,
		WarmUpPeriodSec: s.cfg.Period, WarmUpColdFactor: s.cfg.Cold, StatIntervalInMs: s.cfg.IntervalMs}
	if _, err := flow.LoadRules([]*flow.Rule{s.rule}); err != nil {
		panic(err)
	}
	if len(flow.GetRules()) != 1 {
		panic("harness: warm-up rule not accepted")
	}
}

func (s *scen) tick(ms int64) {
	s.now += ms
	env.Clock.SetMs(s.now)
}

// windowSum: admitted tokens in the aligned statistic window (500 ms buckets; 1 s by default) ending at now
func (s *scen) windowSum() int64 {
	bl := s.cfg.bucketLen()
	cur := s.now - s.now%bl
	var n int64
	for _, a := range s.adm {
		st := a.t - a.t%bl
		if st >= cur-s.cfg.interval()+bl && st <= cur {
			n += s.cfg.batch()
		}
	}
	return n
}

// allowed asks the installed calculator for the effective threshold (it is what the checker
// uses for the next request at this instant).
func (s *scen) allowed() float64 {
	cs := flow.VerifControllers("a")
	return cs[0].TC.FlowCalculator().CalculateAllowedTokens(1, 0)
}

// request issues one single-token request; returns admitted, violation
func (s *scen) request() (bool, string) {
	a := s.allowed()
	if math.IsNaN(a) || math.IsInf(a, 0) || a < 0 {
		return false, fmt.Sprintf("t=+%dms: effective threshold is %v", s.now-T0, a)
	}
	if a > s.cfg.T*(1+1e-9)+1e-9 { // Nextafter leaves a denormal above a zero threshold
		return false, fmt.Sprintf("t=+%dms: effective threshold %v exceeds the configured threshold %v", s.now-T0, a, s.cfg.T)
	}
	before := s.windowSum()
	var opts []sentinel.EntryOption
	if s.cfg.Batch > 1 {
		opts = append(opts, sentinel.WithBatchCount(s.cfg.Batch))
	}
	e, blk := sentinel.Entry("a", opts...)
	s.idleSince = s.now
	s.fresh = false
	if blk != nil {
		return false, ""
	}
	e.Exit()
	if float64(before+s.cfg.batch()) > s.cfg.T {
		return true, fmt.Sprintf("t=+%dms: request admitted although %d tokens were already admitted in the current window (threshold %v)", s.now-T0, before, s.cfg.T)
	}
	s.adm = append(s.adm, admit{s.now})
	return true, ""
}

func (s *scen) coolTime() int64 {
	// idle time after which the bucket is certainly full again: maxToken/threshold seconds;
	// maxToken <= period*threshold*(1/(cold-1) + 2/(cold+1)) <= 1.67*period*threshold
	return int64(2*s.cfg.Period+1) * 1000
}

func (s *scen) Apply(i int) (string, string) {
	switch i {
	case opIdle1:
		s.tick(1000)
		return "", ""
	case opIdleLong:
		s.tick(s.coolTime())
		return "", ""
	case opIdleHuge:
		s.tick(1<<32 + 704)
		return "", ""
	case opBurst:
		cold := s.fresh || s.now-s.idleSince >= s.coolTime()
		// the tokens stored when the idle period ends: exactly on the warning line is the known permanent state
		onLine := ""
		if w, ok := flow.VerifWarmUpOf(flow.VerifControllers("a")[0].TC); ok && w.Stored == int64(w.WarningToken) {
			onLine = fmt.Sprintf(" [stored tokens sit exactly on the warning line %d]", w.WarningToken)
		}
		k := int(math.Ceil(s.cfg.T)) + 3
		n := 0
		for j := 0; j < k; j++ {
			ok, v := s.request()
			if v != "" {
				return "", v
			}
			if ok {
				n++
			}
		}
		if cold && s.cfg.T > 0 {
			lim := int(math.Ceil(s.cfg.T/s.cfg.cold())) + 1
			if n*int(s.cfg.batch()) > lim {
				return fmt.Sprint(n), fmt.Sprintf("t=+%dms: %d requests admitted at once from a cold start, more than about threshold/coldFactor = %v/%v (allowed <= %d)%s", s.now-T0, n, s.cfg.T, s.cfg.cold(), lim, onLine)
			}
		}
		return fmt.Sprintf("burst=%d", n), ""
	case opSteady:
		n := 0
		for j := 0; j < 10; j++ {
			ok, v := s.request()
			if v != "" {
				return "", v
			}
			if ok {
				n++
			}
			s.tick(100)
		}
		return fmt.Sprintf("steady=%d", n), ""
	case opSaturate:
		dur := int64(2*s.cfg.Period+3) * 1000
		per := int(math.Ceil(s.cfg.T/10)) + 1
		end := s.now + dur
		last := 0
		for s.now < end {
			for j := 0; j < per; j++ {
				ok, v := s.request()
				if v != "" {
					return "", v
				}
				if ok && s.now >= end-s.cfg.interval() {
					last++
				}
			}
			s.tick(100)
		}
		if b := int(s.cfg.batch()); s.cfg.T >= 1 && last*b+(b-1) < int(math.Floor(s.cfg.T)) {
			return fmt.Sprint(last), fmt.Sprintf("after %d s of saturating demand only %d requests were admitted in the last statistic interval (%d ms), threshold %v (warm-up period %d s)", dur/1000, last, s.cfg.interval(), s.cfg.T, s.cfg.Period)
		}
		return fmt.Sprintf("sat=%d", last), ""
	case opPatient:
		dur := int64(s.cfg.Period+2) * 1000
		end := s.now + dur
		n := 0
		for s.now < end {
			ok, v := s.request()
			if v != "" {
				return "", v
			}
			if ok {
				n++
			}
			s.tick(100)
		}
		if s.cfg.T >= 1 && n == 0 {
			return "0", fmt.Sprintf("a steady single-token demand was starved for %d s (threshold %v, cold factor %v, period %d s)", dur/1000, s.cfg.T, s.cfg.cold(), s.cfg.Period)
		}
		return fmt.Sprintf("patient=%d", minInt(n, 3)), ""
	}
	return "", ""
}

func minInt(a, b int) int {
	if a < b {
		return a
	}
	return b
}

func (s *scen) Key() string {
	cs := flow.VerifControllers("a")
	w, _ := flow.VerifWarmUpOf(cs[0].TC)
	bl := s.cfg.bucketLen()
	cur := s.now - s.now%bl
	var r []string
	for _, a := range s.adm {
		st := a.t - a.t%bl
		if st >= cur-1000 {
			r = append(r, fmt.Sprint(st-cur))
		}
	}
	idle := s.now - s.idleSince
	if idle > s.coolTime() {
		idle = s.coolTime()
	}
	return fmt.Sprintf("%v|%d|%d|%d|%s|%d", s.fresh, w.Stored, int64(w.LastFilled)-s.now, s.now%1000, strings.Join(r, ","), idle)
}

func configs() []Config {
	var out []Config
	for _, t := range []float64{0, 0.5, 1, 2, 3, 3.5, 5, 5.5, 10, 11.5, 100} { // fractional thresholds: truncation and rounding differ
		for _, p := range []uint32{1, 2, 5, 10} {
			for _, cf := range []uint32{0, 2, 3, 5, 10} {
				out = append(out, Config{T: t, Period: p, Cold: cf})
			}
		}
	}
	// the threshold is a count per statistic interval: intervals other than one second
	for _, iv := range []uint32{500, 2000} {
		for _, p := range []uint32{2, 5} {
			out = append(out, Config{T: 10, Period: p, Cold: 3, IntervalMs: iv})
		}
	}
	// requests of two tokens each, on the resource's own statistic and on a statistic of the rule's own
	for _, iv := range []uint32{0, 500, 1200} {
		out = append(out, Config{T: 10, Period: 2, Cold: 3, IntervalMs: iv, Batch: 2})
	}
	out = append(out, Config{T: 10, Period: 2, Cold: 3, IntervalMs: 1200})
	// a statistic of the rule's own (interval not a multiple of the bucket length) under requests of four tokens
	for _, iv := range []uint32{700, 1200} {
		out = append(out, Config{T: 100, Period: 2, Cold: 3, IntervalMs: iv, Batch: 4})
	}
	return out
}

func signature(cfg Config, what string) string {
	switch {
	case strings.Contains(what, "effective threshold is"):
		return "C11:warmup:non-finite-threshold"
	case strings.Contains(what, "exceeds the configured"):
		return "C11:warmup:threshold-above-configured"
	case strings.Contains(what, "admitted although"):
		return "C11:warmup:rate-above-threshold"
	case strings.Contains(what, "from a cold start"):
		if !strings.Contains(what, "exactly on the warning line") {
			return "C11:warmup:cold-start-too-high:tokens-off-the-warning-line"
		}
		return "C11:warmup:cold-start-too-high"
	case strings.Contains(what, "saturating demand"):
		if cfg.T < cfg.cold() {
			return "C11:warmup:never-warm:threshold-below-cold-factor"
		}
		if cfg.IntervalMs > 1000 {
			return "C11:warmup:never-warm:interval-above-1s"
		}
		if cfg.Batch > 1 {
			return "C11:warmup:never-warm:batched-requests-below-the-cold-mark"
		}
		return "C11:warmup:never-warm"
	case strings.Contains(what, "starved"):
		if cfg.T < cfg.cold() {
			return "C11:warmup:starved:threshold-below-cold-factor"
		}
		return "C11:warmup:starved"
	}
	return "C11:other"
}

type replayDoc struct {
	Kind string   `json:"kind"`
	Cfg  Config   `json:"cfg"`
	Path []int    `json:"path"`
	Ops  []string `json:"ops"`
}

func run(c *props.Ctx) {
	depth := 4
	if !c.Quick() {
		depth = 6
	}
	c.R.Bounds["depth_demand_programs"] = depth
	cfgs := configs()
	c.R.Bounds["warmup_configs"] = len(cfgs)
	for i, cfg := range cfgs {
		if !c.Mine(i) {
			continue
		}
		if c.Expired() {
			c.R.Cap("time budget reached before all configurations were explored")
			break
		}
		cfg := cfg
		s := &scen{cfg: cfg}
		res := seq.Explore(s, seq.Options{Depth: depth, Deadline: c.Deadline, Classify: func(w string) string { return signature(cfg, w) }, MaxStates: 500000})
		c.R.States += int64(res.States)
		c.R.Transitions += res.Transitions
		c.R.Evaluations += res.Transitions
		c.R.Traces += res.Transitions
		for o := range res.Obs {
			c.R.Outcome(fmt.Sprintf("%d|%s", i, o))
		}
		if res.CapHit != "" && res.CapHit != "violation limit" {
			c.R.Cap(res.CapHit)
		}
		if i%41 == 0 {
			c.R.Sample(map[string]interface{}{"config": cfg, "states": res.States, "transitions": res.Transitions, "depth": res.Depth, "path": res.SamplePath})
		}
		for _, v := range res.Violations {
			c.R.Violate(report.Violation{Signature: signature(cfg, v.What), What: v.What, Scenario: cfg.String() + " " + strings.Join(v.Ops, " "),
				Replay: replayDoc{Kind: "warmup", Cfg: cfg, Path: v.Path, Ops: v.Ops}})
		}
	}
	if c.Shard == 0 {
		memoryAdaptive(c)
		warmUpThrottling(c)
	}
}

// warmUpThrottling: "every valid warm-up rule" includes the ones whose control behaviour is throttling
// (requests are paced at the current allowed rate instead of being counted against it). Directed
// enumeration: one request per millisecond, no queueing, for 2*period+3 s from a cold start.
func warmUpThrottling(c *props.Ctx) {
	n := 0
	for _, T := range []float64{10, 100} {
		for _, period := range []uint32{1, 2, 5} {
			for _, cold := range []uint32{0, 2, 3, 5} {
				cfg := Config{T: T, Period: period, Cold: cold}
				env.ResetAll(env.DefaultGeometry, T0)
				rule := &flow.Rule{Resource: "a", TokenCalculateStrategy: flow.WarmUp, ControlBehavior: flow.Throttling, Threshold: T,
					WarmUpPeriodSec: period, WarmUpColdFactor: cold, MaxQueueingTimeMs: 0}
				if _, err := flow.LoadRules([]*flow.Rule{rule}); err != nil || len(flow.GetRules()) != 1 {
					c.R.HarnessError(fmt.Sprintf("warm-up throttling rule %v not accepted", cfg))
					continue
				}
				dur := int64(2*period+3) * 1000
				perSec := make([]int, dur/1000)
				for ms := int64(0); ms < dur; ms++ {
					env.Clock.SetMs(T0 + ms)
					if e, blk := sentinel.Entry("a"); blk == nil {
						e.Exit()
						perSec[ms/1000]++
					}
				}
				n++
				what := ""
				first, last := perSec[0], perSec[len(perSec)-1]
				lim := int(math.Ceil(T/cfg.cold())) + 1
				for sec, k := range perSec {
					if float64(k) > T {
						what = fmt.Sprintf("warm-up rule with throttling behaviour: %d requests admitted in second %d, threshold %v", k, sec, T)
					}
				}
				if what == "" && first > lim {
					what = fmt.Sprintf("warm-up rule with throttling behaviour: %d requests admitted in the first second from a cold start, more than about threshold/coldFactor = %v/%v", first, T, cfg.cold())
				}
				if what == "" && last < int(T)-1 {
					what = fmt.Sprintf("warm-up rule with throttling behaviour: after %d s of saturating demand only %d requests were admitted in the last second, threshold %v (period %d s); per second: %v", dur/1000, last, T, period, perSec)
				}
				c.R.Outcome(fmt.Sprintf("wt|%v|%d/%d", cfg, first, last))
				if what != "" {
					c.R.Violate(report.Violation{Signature: "C11:warmup-throttling:" + map[bool]string{true: "never-warm", false: "envelope"}[strings.Contains(what, "saturating")],
						What: what, Scenario: cfg.String(), Replay: map[string]interface{}{"kind": "warmup-throttling", "cfg": cfg}})
				}
			}
		}
	}
	c.R.Evaluations += int64(n)
	c.R.Bounds["warm_up_throttling_rules"] = n
}

// memoryAdaptive: exhaustive grid of rules x readings.
func memoryAdaptive(c *props.Ctx) {
	type mr struct{ lowT, highT, lowM, highM int64 }
	var rules []mr
	// up to realistic byte counts (hundreds of MiB; the high water mark must not exceed the machine's memory) and thresholds whose product with them
	// leaves the 64-bit integer range
	for _, lt := range []int64{1, 2, 10, 1000, 1 << 40, 1 << 62} {
		for _, ht := range []int64{1, 5, 999, 1 << 30} {
			if ht >= lt {
				continue
			}
			for _, lm := range []int64{1, 100, 1024, 128 << 20} {
				for _, hm := range []int64{2, 101, 1000, 4096, 384 << 20} {
					if lm >= hm {
						continue
					}
					rules = append(rules, mr{lt, ht, lm, hm})
				}
			}
		}
	}
	n := 0
	for _, r := range rules {
		env.ResetAll(env.DefaultGeometry, T0)
		rule := &flow.Rule{Resource: "m", TokenCalculateStrategy: flow.MemoryAdaptive, ControlBehavior: flow.Reject,
			LowMemUsageThreshold: r.lowT, HighMemUsageThreshold: r.highT, MemLowWaterMarkBytes: r.lowM, MemHighWaterMarkBytes: r.highM}
		if _, err := flow.LoadRules([]*flow.Rule{rule}); err != nil || len(flow.GetRules()) != 1 {
			c.R.HarnessError(fmt.Sprintf("memory-adaptive rule %+v not accepted", r))
			continue
		}
		tc := flow.VerifControllers("m")[0].TC
		mid := (r.lowM + r.highM) / 2
		readings := []int64{0, r.lowM - 1, r.lowM, r.lowM + 1, r.lowM + (r.highM-r.lowM)/28, mid, r.highM - (r.highM-r.lowM)/3, r.highM - 1, r.highM, r.highM + 1, r.highM * 10}
		sort.Slice(readings, func(i, j int) bool { return readings[i] < readings[j] })
		prev := math.Inf(1)
		for _, m := range readings {
			if m < 0 {
				continue
			}
			system_metric.SetSystemMemoryUsage(m)
			got := tc.FlowCalculator().CalculateAllowedTokens(1, 0)
			n++
			what := ""
			switch {
			case math.IsNaN(got) || math.IsInf(got, 0) || got < 0:
				what = fmt.Sprintf("effective threshold %v is not a finite non-negative number", got)
			case m <= r.lowM && got != float64(r.lowT):
				what = fmt.Sprintf("memory %d <= low water mark %d: effective threshold %v, expected the low-memory threshold %d", m, r.lowM, got, r.lowT)
			case m >= r.highM && got != float64(r.highT):
				what = fmt.Sprintf("memory %d >= high water mark %d: effective threshold %v, expected the high-memory threshold %d", m, r.highM, got, r.highT)
			case got > prev+1e-9:
				what = fmt.Sprintf("effective threshold rises from %v to %v as memory grows to %d", prev, got, m)
			case got > float64(r.lowT)+1e-9 || got < float64(r.highT)-1e-9:
				what = fmt.Sprintf("memory %d: effective threshold %v outside [%d,%d]", m, got, r.highT, r.lowT)
			}
			if what == "" && got <= 1000 {
				// the rule really admits floor(threshold) single-token requests in one window
				env.Clock.SetMs(T0 + int64(n)*5000)
				adm := 0
				for k := 0; k < int(got)+3 && k < 1100; k++ {
					if e, blk := sentinel.Entry("m"); blk == nil {
						e.Exit()
						adm++
					}
				}
				if adm != int(math.Floor(got)) {
					what = fmt.Sprintf("memory %d: %d requests admitted in one window, effective threshold is %v", m, adm, got)
				}
			}
			if what != "" {
				c.R.Violate(report.Violation{Signature: "C11:memory-adaptive", What: what, Scenario: fmt.Sprintf("%+v", r),
					Replay: map[string]interface{}{"kind": "mem", "rule": fmt.Sprintf("%+v", r), "mem": m}})
			}
			c.R.Outcome(fmt.Sprintf("mem|%v|%d", r, m))
			prev = got
		}
	}
	system_metric.SetSystemMemoryUsage(system_metric.NotRetrievedMemoryValue)
	c.R.Evaluations += int64(n)
	c.R.Transitions += int64(n)
	c.R.Bounds["memory_adaptive_rule_x_reading_pairs"] = n
}

func replay(c *props.Ctx, raw json.RawMessage) (bool, string) {
	var d replayDoc
	if err := json.Unmarshal(raw, &d); err != nil {
		return false, err.Error()
	}
	if d.Kind != "warmup" {
		return false, "memory-adaptive cases are re-evaluated by the quick check itself"
	}
	s := &scen{cfg: d.Cfg}
	w := seq.Replay(s, d.Path)
	return w != "", w
}

func init() {
	props.Register(&props.Prop{ID: "C11", Run: run, Replay: replay})
}
