// Package c08: sliding-window statistics equal the aligned-bucket reference for any history.
//
// Engine B. For each array geometry (N buckets x bucket length) and creation time, a
// breadth-first search over all histories of add / update-concurrency / clock-advance /
// array-read operations; after every operation EVERY getter of EVERY constructible view is
// compared with ref/window. Constructibility of views is compared with "tiles the buckets
// exactly" for all (sampleCount, interval) pairs up to twice the array.
package c08

import (
	"encoding/json"
	"fmt"
	"math"
	"sort"
	"strings"

	cb "github.com/alibaba/sentinel-golang/core/base"
	sb "github.com/alibaba/sentinel-golang/core/stat/base"

	"verifharness/engine/seq"
	"verifharness/env"
	"verifharness/props"
	"verifharness/ref/window"
	"verifharness/report"
)

type opKind int

const (
	okAdd opKind = iota
	okConc
	okTick
	okArrayReads
)

type opDef struct {
	Kind opKind
	Ev   int
	Amt  int64
}

func (o opDef) String() string {
	switch o.Kind {
	case okAdd:
		return fmt.Sprintf("add(%s,%d)", evName[o.Ev], o.Amt)
	case okConc:
		return fmt.Sprintf("conc(%d)", o.Amt)
	case okTick:
		return fmt.Sprintf("tick(%d)", o.Amt)
	}
	return "arrayReads"
}

var evName = []string{"pass", "block", "complete", "error", "rt"}
var implEv = []cb.MetricEvent{cb.MetricEventPass, cb.MetricEventBlock, cb.MetricEventComplete, cb.MetricEventError, cb.MetricEventRt}

type view struct {
	n, iv int64
	m     *sb.SlidingWindowMetric
}

type wscen struct {
	N, BL, T0 int64
	ops       []opDef
	arr       *sb.BucketLeapArray
	views     []view
	model     window.Model
	now       int64
}

func (s *wscen) I() int64 { return s.N * s.BL }

func (s *wscen) Name() string        { return fmt.Sprintf("array N=%d bl=%d T0=%d", s.N, s.BL, s.T0) }
func (s *wscen) NumOps() int         { return len(s.ops) }
func (s *wscen) OpName(i int) string { return s.ops[i].String() }
func (s *wscen) Enabled(i int) bool  { return true }

// tiles: the independent statement of "a view tiles the underlying buckets exactly".
func tiles(n, iv, N, I int64) bool {
	if n <= 0 || iv <= 0 || iv%n != 0 {
		return false
	}
	bl := I / N
	vbl := iv / n
	// the view's buckets are unions of whole array buckets, and whole views tile the array
	return vbl%bl == 0 && I%iv == 0
}

func (s *wscen) Reset() {
	env.Install()
	s.now = s.T0
	env.Clock.SetMs(s.now)
	s.arr = sb.NewBucketLeapArray(uint32(s.N), uint32(s.I()))
	s.model = window.Model{BL: s.BL}
	s.views = s.views[:0]
	for iv := int64(1); iv <= 2*s.I(); iv++ {
		for n := int64(1); n <= 2*s.N; n++ {
			if !tiles(n, iv, s.N, s.I()) {
				continue
			}
			m, err := sb.NewSlidingWindowMetric(uint32(n), uint32(iv), s.arr)
			if err != nil {
				continue // constructibility is judged separately
			}
			s.views = append(s.views, view{n, iv, m})
		}
	}
}

func (s *wscen) Apply(i int) (string, string) {
	o := s.ops[i]
	obs := ""
	switch o.Kind {
	case okAdd:
		s.arr.AddCount(implEv[o.Ev], o.Amt)
		s.model.Add(s.now, o.Ev, o.Amt)
	case okConc:
		s.arr.UpdateConcurrency(int32(o.Amt))
		s.model.Add(s.now, window.EvConc, o.Amt)
	case okTick:
		s.now += o.Amt
		env.Clock.SetMs(s.now)
	case okArrayReads:
		var v string
		obs, v = s.arrayReads()
		if v != "" {
			return obs, v
		}
	}
	o2, v := s.viewReads()
	return obs + o2, v
}

func (s *wscen) arrayReads() (string, string) {
	var sb2 strings.Builder
	for e := 0; e < 5; e++ {
		got := s.arr.Count(implEv[e])
		want := s.model.Sum(s.now, s.I(), e)
		fmt.Fprintf(&sb2, "%d,", got)
		if got != want {
			return sb2.String(), fmt.Sprintf("array Count(%s) at t=%d = %d, reference %d", evName[e], s.now, got, want)
		}
	}
	if got, want := s.arr.MinRt(), s.model.MinRt(s.now, s.I()); got != want {
		return sb2.String(), fmt.Sprintf("array MinRt at t=%d = %d, reference %d", s.now, got, want)
	}
	if got, want := int64(s.arr.MaxConcurrency()), s.model.MaxConc(s.now, s.I()); got != want {
		return sb2.String(), fmt.Sprintf("array MaxConcurrency at t=%d = %d, reference %d", s.now, got, want)
	}
	lo, hi := s.model.Range(s.now, s.I())
	for _, st := range sb.VerifStartsOf(s.arr.Values(uint64(s.now))) {
		if int64(st) < lo || int64(st) > hi {
			return sb2.String(), fmt.Sprintf("array Values at t=%d returned bucket %d outside [%d,%d]", s.now, st, lo, hi)
		}
	}
	return sb2.String(), ""
}

func feq(a, b float64) bool {
	if math.IsNaN(a) || math.IsNaN(b) || math.IsInf(a, 0) || math.IsInf(b, 0) {
		return false
	}
	return math.Abs(a-b) <= 1e-9*math.Max(1, math.Abs(b))
}

type secItem struct {
	Ts                          uint64
	Pass, Block, Err, Comp, Avg uint64
	Conc                        uint32
}

func (s *wscen) refSeconds() []secItem {
	lo, hi := s.model.Range(s.now, s.I())
	type agg struct {
		sum  [5]int64
		conc int64
	}
	m := map[int64]*agg{}
	for _, e := range s.model.Events {
		st := s.model.Start(e.T)
		if st < lo || st > hi {
			continue
		}
		sec := st - st%1000
		a := m[sec]
		if a == nil {
			a = &agg{}
			m[sec] = a
		}
		if e.Ev == window.EvConc {
			// per second: maximum of the per-bucket maxima
			if e.Amt > a.conc {
				a.conc = e.Amt
			}
		} else {
			a.sum[e.Ev] += e.Amt
		}
	}
	var out []secItem
	for sec, a := range m {
		it := secItem{Ts: uint64(sec), Pass: uint64(a.sum[window.EvPass]), Block: uint64(a.sum[window.EvBlock]),
			Err: uint64(a.sum[window.EvError]), Comp: uint64(a.sum[window.EvComplete]), Conc: uint32(a.conc)}
		if it.Comp > 0 {
			it.Avg = uint64(a.sum[window.EvRt]) / it.Comp
		} else {
			it.Avg = uint64(a.sum[window.EvRt])
		}
		if it.Pass|it.Block|it.Err|it.Comp|it.Avg|uint64(it.Conc) != 0 {
			out = append(out, it)
		}
	}
	sort.Slice(out, func(i, j int) bool { return out[i].Ts < out[j].Ts })
	return out
}

func implSeconds(items []*cb.MetricItem) []secItem {
	var out []secItem
	for _, m := range items {
		it := secItem{Ts: m.Timestamp, Pass: m.PassQps, Block: m.BlockQps, Err: m.ErrorQps, Comp: m.CompleteQps, Avg: m.AvgRt, Conc: m.Concurrency}
		if it.Pass|it.Block|it.Err|it.Comp|it.Avg|uint64(it.Conc) != 0 {
			out = append(out, it)
		}
	}
	sort.Slice(out, func(i, j int) bool { return out[i].Ts < out[j].Ts })
	return out
}

func (s *wscen) viewReads() (string, string) {
	var ob strings.Builder
	for _, v := range s.views {
		tag := fmt.Sprintf("view(n=%d,I=%d) over array(N=%d,I=%d) at t=%d", v.n, v.iv, s.N, s.I(), s.now)
		vbl := v.iv / v.n
		for e := 0; e < 5; e++ {
			want := s.model.Sum(s.now, v.iv, e)
			got := v.m.GetSum(implEv[e])
			if e == 0 {
				fmt.Fprintf(&ob, "%d,", got)
			}
			if got != want {
				return ob.String(), fmt.Sprintf("%s: GetSum(%s) = %d, reference %d", tag, evName[e], got, want)
			}
			if g, w := v.m.GetQPS(implEv[e]), float64(want)/(float64(v.iv)/1000.0); !feq(g, w) {
				return ob.String(), fmt.Sprintf("%s: GetQPS(%s) = %v, reference %v", tag, evName[e], g, w)
			}
			if g, w := v.m.GetMaxOfSingleBucket(implEv[e]), s.model.MaxOfSingleBucket(s.now, v.iv, e); g != w {
				return ob.String(), fmt.Sprintf("%s: GetMaxOfSingleBucket(%s) = %d, reference %d", tag, evName[e], g, w)
			}
			// previous window: only for views shorter than the array by >= one view bucket
			if v.iv+vbl <= s.I() && s.now > vbl { // a read at timestamp 0 is "no time" for the code: outside the domain
				w := float64(s.model.Sum(s.now-vbl, v.iv, e)) / (float64(v.iv) / 1000.0)
				if g := v.m.GetPreviousQPS(implEv[e]); !feq(g, w) {
					return ob.String(), fmt.Sprintf("%s: GetPreviousQPS(%s) = %v, reference %v", tag, evName[e], g, w)
				}
			}
		}
		wantMin := s.model.MinRt(s.now, v.iv)
		if wantMin < 1 {
			wantMin = 1
		}
		if g := v.m.MinRT(); g != float64(wantMin) {
			return ob.String(), fmt.Sprintf("%s: MinRT = %v, reference %d", tag, g, wantMin)
		}
		if g, w := int64(v.m.MaxConcurrency()), s.model.MaxConc(s.now, v.iv); g != w {
			return ob.String(), fmt.Sprintf("%s: MaxConcurrency = %d, reference %d", tag, g, w)
		}
		if c := s.model.Sum(s.now, v.iv, window.EvComplete); c > 0 {
			w := float64(s.model.Sum(s.now, v.iv, window.EvRt)) / float64(c)
			if g := v.m.AvgRT(); !feq(g, w) {
				return ob.String(), fmt.Sprintf("%s: AvgRT = %v, reference %v", tag, g, w)
			}
		}
	}
	if len(s.views) > 0 {
		got := implSeconds(s.views[0].m.SecondMetricsOnCondition(func(uint64) bool { return true }))
		want := s.refSeconds()
		if fmt.Sprint(got) != fmt.Sprint(want) {
			return ob.String(), fmt.Sprintf("SecondMetricsOnCondition over array(N=%d,I=%d) at t=%d = %v, reference %v", s.N, s.I(), s.now, got, want)
		}
		fmt.Fprintf(&ob, "s%d", len(got))
	}
	return ob.String(), ""
}

func gcd(a, b int64) int64 {
	for b != 0 {
		a, b = b, a%b
	}
	return a
}

func (s *wscen) Key() string {
	var b strings.Builder
	cyc := s.I()
	l := cyc / gcd(cyc, 1000) * 1000
	if s.now < 3*s.I() {
		fmt.Fprintf(&b, "abs%d|", s.now)
	} else {
		fmt.Fprintf(&b, "ph%d|", s.now%l)
	}
	bk, _ := s.arr.VerifDump()
	for _, x := range bk {
		fmt.Fprintf(&b, "%d:%v:%d:%d;", int64(x.Start)-s.now, x.Counter, x.MinRt, x.MaxConc)
	}
	// model: per-bucket aggregates of everything that a future read can still see
	cut := s.model.Start(s.now) - 2*s.I()
	type agg struct {
		sum      [5]int64
		min, max int64
	}
	m := map[int64]*agg{}
	for _, e := range s.model.Recent(cut) {
		st := s.model.Start(e.T) - s.model.Start(s.now)
		a := m[st]
		if a == nil {
			a = &agg{min: window.DefaultMaxRt}
			m[st] = a
		}
		switch e.Ev {
		case window.EvConc:
			if e.Amt > a.max {
				a.max = e.Amt
			}
		case window.EvRt:
			a.sum[e.Ev] += e.Amt
			if e.Amt < a.min {
				a.min = e.Amt
			}
		default:
			a.sum[e.Ev] += e.Amt
		}
	}
	ks := make([]int64, 0, len(m))
	for k := range m {
		ks = append(ks, k)
	}
	sort.Slice(ks, func(i, j int) bool { return ks[i] < ks[j] })
	for _, k := range ks {
		fmt.Fprintf(&b, "|%d=%v,%d,%d", k, m[k].sum, m[k].min, m[k].max)
	}
	return b.String()
}

func mkOps(N, BL int64, quick bool) []opDef {
	I := N * BL
	ops := []opDef{
		{okAdd, window.EvPass, 1}, {okAdd, window.EvPass, 3},
		// response times on both sides of the default statistic maximum (60000 ms): sums are sums; a completion of 0 ms
		// is an event too (it is the minimum of its window)
		{okAdd, window.EvRt, 7}, {okAdd, window.EvRt, 70000}, {okAdd, window.EvRt, 0}, {okAdd, window.EvComplete, 1},
		{okConc, 0, 2}, {okConc, 0, 5}, // two levels: a maximum differs from "the last one seen"
	}
	if !quick {
		ops = append(ops, opDef{okAdd, window.EvBlock, 1}, opDef{okAdd, window.EvError, 1})
	}
	seen := map[int64]bool{}
	for _, d := range []int64{1, BL - 1, BL, BL + 1, I - 1, I, I + 1, 3*I + BL/2 + 1} {
		if d > 0 && !seen[d] {
			seen[d] = true
			ops = append(ops, opDef{okTick, 0, d})
		}
	}
	ops = append(ops, opDef{Kind: okArrayReads})
	return ops
}

type geom struct{ N, BL int64 }

type replayDoc struct {
	N, BL, T0 int64
	Quick     bool
	Path      []int
	Ops       []string
}

func signature(what string) string {
	switch {
	case strings.Contains(what, "SecondMetricsOnCondition"):
		return "C08:second-metrics-mismatch"
	case strings.Contains(what, "GetPreviousQPS"):
		return "C08:previous-qps-mismatch"
	case strings.Contains(what, "constructib"):
		return "C08:view-constructibility"
	case strings.HasPrefix(what, "array "):
		return "C08:array-read-mismatch"
	case strings.HasPrefix(what, "node "):
		return "C08:node-read-mismatch"
	}
	return "C08:view-read-mismatch"
}

func constructibility(c *props.Ctx) {
	// every (n', I') against every array geometry: constructible <=> tiles exactly
	env.Install()
	env.Clock.SetMs(100000)
	cnt := 0
	for _, g := range []geom{{1, 1}, {1, 10}, {2, 5}, {3, 10}, {4, 5}, {6, 2}, {20, 500}, {2, 500}, {10, 100}} {
		I := g.N * g.BL
		arr := sb.NewBucketLeapArray(uint32(g.N), uint32(I))
		for iv := int64(0); iv <= 2*I && iv <= 2200; iv++ {
			for n := int64(0); n <= 2*g.N; n++ {
				_, err := sb.NewSlidingWindowMetric(uint32(n), uint32(iv), arr)
				want := tiles(n, iv, g.N, I)
				cnt++
				if (err == nil) != want {
					c.R.Violate(report.Violation{Signature: "C08:view-constructibility",
						What:     fmt.Sprintf("view (sampleCount=%d, interval=%d) over array (N=%d, I=%d): constructible=%v, tiles exactly=%v", n, iv, g.N, I, err == nil, want),
						Scenario: "constructibility", Replay: map[string]int64{"n": n, "iv": iv, "N": g.N, "I": I}})
				}
				c.R.Outcome(fmt.Sprintf("cons%v/%d/%d/%d", want, n%7, iv%11, g.N))
			}
		}
	}
	c.R.Evaluations += int64(cnt)
	c.R.Transitions += int64(cnt)
	c.R.Bounds["constructibility_pairs"] = cnt
}

func scenarios(c *props.Ctx) []*wscen {
	geoms := []geom{{1, 5}, {2, 5}, {3, 2}, {4, 5}, {2, 500}}
	if !c.Quick() {
		geoms = append(geoms, geom{1, 1}, geom{6, 2}, geom{3, 10}, geom{4, 250}, geom{20, 500})
	}
	var out []*wscen
	for _, g := range geoms {
		I := g.N * g.BL
		// the last start lies half a bucket before bucket number 2^32: the histories cross it
		for _, t0 := range []int64{1, g.BL, 7 * I * 1000, 7*I*1000 + g.BL + g.BL/2 + 1, (int64(1)<<32)*g.BL - g.BL/2 - 1} {
			out = append(out, &wscen{N: g.N, BL: g.BL, T0: t0, ops: mkOps(g.N, g.BL, c.Quick())})
		}
	}
	return out
}

func run(c *props.Ctx) {
	if c.Shard == 0 {
		constructibility(c)
	}
	depth := 5
	if !c.Quick() {
		depth = 7
	}
	c.R.Bounds["depth"] = depth
	all := scenarios(c)
	all2 := nodeScenarios(c)
	c.R.Bounds["array_scenarios"] = len(all)
	c.R.Bounds["node_scenarios"] = len(all2)
	var scs []seq.Scenario
	for _, s := range all {
		scs = append(scs, s)
	}
	for _, s := range all2 {
		scs = append(scs, s)
	}
	for i, s := range scs {
		if !c.Mine(i) {
			continue
		}
		if c.Expired() {
			c.R.Cap("time budget reached before all scenarios were explored")
			break
		}
		res := seq.Explore(s, seq.Options{Depth: depth, Deadline: c.Deadline, MaxStates: 3000000, Classify: signature})
		c.R.States += int64(res.States)
		c.R.Transitions += res.Transitions
		c.R.Evaluations += res.Transitions
		c.R.Traces += res.Transitions
		for o := range res.Obs {
			c.R.Outcome(s.Name() + "|" + o)
		}
		if res.CapHit != "" && res.CapHit != "violation limit" {
			c.R.Cap(s.Name() + ": " + res.CapHit + fmt.Sprintf(" (depth completed %d)", res.Depth))
		}
		c.R.Sample(map[string]interface{}{"scenario": s.Name(), "states": res.States, "transitions": res.Transitions, "depth": res.Depth, "path": res.SamplePath})
		for _, v := range res.Violations {
			var doc interface{}
			switch t := s.(type) {
			case *wscen:
				doc = replayDoc{N: t.N, BL: t.BL, T0: t.T0, Quick: c.Quick(), Path: v.Path, Ops: v.Ops}
			case *nscen:
				doc = map[string]interface{}{"node": true, "T0": t.T0, "Quick": c.Quick(), "Path": v.Path, "Ops": v.Ops}
			}
			c.R.Violate(report.Violation{Signature: signature(v.What), What: v.What, Scenario: s.Name() + " " + strings.Join(v.Ops, " "), Replay: doc})
		}
	}
}

func replay(c *props.Ctx, raw json.RawMessage) (bool, string) {
	var probe map[string]interface{}
	_ = json.Unmarshal(raw, &probe)
	if _, ok := probe["n"]; ok {
		return false, "constructibility cases are re-evaluated by the quick check itself"
	}
	if probe["node"] == true {
		var d struct {
			T0    int64
			Quick bool
			Path  []int
		}
		_ = json.Unmarshal(raw, &d)
		s := &nscen{T0: d.T0, ops: nodeOps(d.Quick)}
		w := seq.Replay(s, d.Path)
		return w != "", w
	}
	var d replayDoc
	if err := json.Unmarshal(raw, &d); err != nil {
		return false, err.Error()
	}
	s := &wscen{N: d.N, BL: d.BL, T0: d.T0, ops: mkOps(d.N, d.BL, d.Quick)}
	w := seq.Replay(s, d.Path)
	return w != "", w
}

func init() {
	props.Register(&props.Prop{ID: "C08", Run: run, Replay: replay})
}
