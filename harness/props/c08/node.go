package c08

import (
	"fmt"
	"strings"

	"github.com/alibaba/sentinel-golang/core/config"
	"github.com/alibaba/sentinel-golang/core/stat"

	"verifharness/env"
	"verifharness/ref/window"
)

// nscen drives stat.BaseStatNode with the default global geometry (array 20 x 500 ms, metric
// view 2 x 500 ms) and compares every getter of the node.
type nscen struct {
	T0    int64
	ops   []opDef
	node  *stat.BaseStatNode
	model window.Model
	now   int64
	gauge int64
}

const (
	okInc opKind = 100 + iota
	okDec
)

func nodeOps(quick bool) []opDef {
	ops := []opDef{
		{okAdd, window.EvPass, 1}, {okAdd, window.EvPass, 3}, {okAdd, window.EvRt, 7}, {okAdd, window.EvRt, 70000}, {okAdd, window.EvRt, 0},
		{okAdd, window.EvComplete, 1}, {Kind: okInc}, {Kind: okDec},
	}
	if !quick {
		ops = append(ops, opDef{okAdd, window.EvBlock, 2}, opDef{okAdd, window.EvError, 1})
	}
	for _, d := range []int64{1, 499, 500, 501, 1000, 9500, 10000, 10001, 35250} {
		ops = append(ops, opDef{okTick, 0, d})
	}
	return ops
}

func (s *nscen) Name() string { return fmt.Sprintf("BaseStatNode default geometry T0=%d", s.T0) }
func (s *nscen) NumOps() int  { return len(s.ops) }
func (s *nscen) OpName(i int) string {
	switch s.ops[i].Kind {
	case okInc:
		return "incConcurrency"
	case okDec:
		return "decConcurrency"
	}
	return s.ops[i].String()
}
func (s *nscen) Enabled(i int) bool {
	if s.ops[i].Kind == okDec {
		return s.gauge > 0
	}
	return true
}

func (s *nscen) Reset() {
	env.Install()
	config.ResetGlobalConfig(config.NewDefaultConfig())
	s.now = s.T0
	env.Clock.SetMs(s.now)
	s.node = stat.NewBaseStatNode(config.MetricStatisticSampleCount(), config.MetricStatisticIntervalMs())
	s.model = window.Model{BL: 500}
	s.gauge = 0
}

func (s *nscen) Apply(i int) (string, string) {
	o := s.ops[i]
	switch o.Kind {
	case okAdd:
		s.node.AddCount(implEv[o.Ev], o.Amt)
		s.model.Add(s.now, o.Ev, o.Amt)
	case okInc:
		s.node.IncreaseConcurrency()
		s.gauge++
		s.model.Add(s.now, window.EvConc, s.gauge)
	case okDec:
		s.node.DecreaseConcurrency()
		s.gauge--
	case okTick:
		s.now += o.Amt
		env.Clock.SetMs(s.now)
	}
	return s.reads()
}

func (s *nscen) reads() (string, string) {
	var ob strings.Builder
	const iv, arrI = 1000, 10000
	tag := fmt.Sprintf("node at t=%d", s.now)
	for e := 0; e < 5; e++ {
		want := s.model.Sum(s.now, iv, e)
		got := s.node.GetSum(implEv[e])
		fmt.Fprintf(&ob, "%d,", got)
		if got != want {
			return ob.String(), fmt.Sprintf("%s: GetSum(%s) = %d, reference %d", tag, evName[e], got, want)
		}
		if g, w := s.node.GetQPS(implEv[e]), float64(want); !feq(g, w) {
			return ob.String(), fmt.Sprintf("%s: GetQPS(%s) = %v, reference %v", tag, evName[e], g, w)
		}
		if s.now > 500 {
			if g, w := s.node.GetPreviousQPS(implEv[e]), float64(s.model.Sum(s.now-500, iv, e)); !feq(g, w) {
				return ob.String(), fmt.Sprintf("%s: GetPreviousQPS(%s) = %v, reference %v", tag, evName[e], g, w)
			}
		}
		if g, w := s.node.GetMaxAvg(implEv[e]), float64(s.model.MaxOfSingleBucket(s.now, iv, e))*2; !feq(g, w) {
			return ob.String(), fmt.Sprintf("%s: GetMaxAvg(%s) = %v, reference %v", tag, evName[e], g, w)
		}
	}
	c := s.model.Sum(s.now, iv, window.EvComplete)
	wantAvg := float64(0)
	if c > 0 {
		wantAvg = float64(s.model.Sum(s.now, iv, window.EvRt) / c) // documented integer average
	}
	if g := s.node.AvgRT(); !feq(g, wantAvg) {
		return ob.String(), fmt.Sprintf("%s: AvgRT = %v, reference %v", tag, g, wantAvg)
	}
	wantMin := s.model.MinRt(s.now, iv)
	if wantMin < 1 {
		wantMin = 1
	}
	if g := s.node.MinRT(); g != float64(wantMin) {
		return ob.String(), fmt.Sprintf("%s: MinRT = %v, reference %d", tag, g, wantMin)
	}
	if g, w := int64(s.node.MaxConcurrency()), s.model.MaxConc(s.now, iv); g != w {
		return ob.String(), fmt.Sprintf("%s: MaxConcurrency = %d, reference %d", tag, g, w)
	}
	if g := int64(s.node.CurrentConcurrency()); g != s.gauge {
		return ob.String(), fmt.Sprintf("%s: CurrentConcurrency = %d, reference %d", tag, g, s.gauge)
	}
	w := &wscen{N: 20, BL: 500, model: s.model, now: s.now}
	got := implSeconds(s.node.MetricsOnCondition(func(uint64) bool { return true }))
	want := w.refSeconds()
	if fmt.Sprint(got) != fmt.Sprint(want) {
		return ob.String(), fmt.Sprintf("%s: MetricsOnCondition = %v, reference %v", tag, got, want)
	}
	_ = arrI
	return ob.String(), ""
}

func (s *nscen) Key() string {
	w := &wscen{N: 20, BL: 500, model: s.model, now: s.now, arr: s.node.VerifArr()}
	return fmt.Sprintf("g%d|", s.gauge) + w.Key()
}

func nodeScenarios(c interface{ Quick() bool }) []*nscen {
	var out []*nscen
	// 2147483647749: half a bucket before bucket number 2^32 of the 500 ms array (January 2038)
	for _, t0 := range []int64{1, 500, 1700000000000, 1700000000749, 2147483647749} {
		out = append(out, &nscen{T0: t0, ops: nodeOps(c.Quick())})
	}
	return out
}
