// Package c16: the slot chain runs in order, short-circuits on the first block, fails open.
//
// Engine B, exhaustive enumeration of programs: every chain assembled from up to 2-3
// prepare, 3 rule-check and 2-3 statistic slots with colliding order values, every
// behaviour of every slot (ok / nil / pass / block with an own result / block by mutating the
// pooled result / panic; statistic slots panicking in one of their callbacks), with and without
// a panicking exit handler, followed by 0-2 further entries on other chains that recycle the
// pooled context and result. The call log of the recording slots and the returned block error
// are compared with the statement.
package c16

import (
	"encoding/json"
	"errors"
	"fmt"
	"sort"
	"strings"

	sentinel "github.com/alibaba/sentinel-golang/api"
	"github.com/alibaba/sentinel-golang/core/base"

	"verifharness/env"
	"verifharness/props"
	"verifharness/report"
)

// slot behaviours
const (
	pOK = iota
	pPanic
)
const (
	cNil = iota
	cPass
	cBlockOwn
	cBlockPooled
	cBlockPooledBare // pooled result, block type only (what most built-in slots do)
	cBlockPooledMsg  // pooled result, block type + message
	cWait            // an own "should wait" result: neither pass nor block, the chain goes on
	cPanic
	cBlockBareOwn // an own result built with NewTokenResult(Blocked) and nothing else: a block all the same
)

func blocks(b int) bool { return b >= cBlockOwn && b <= cBlockPooledMsg || b == cBlockBareOwn }

// what the block error of behaviour b raised by slot id must look like
func wantSnap(b int, id string) (base.BlockType, string, string, interface{}) {
	switch b {
	case cBlockOwn:
		return base.BlockTypeFlow, "own:" + id, id, id
	case cBlockPooled:
		return base.BlockTypeIsolation, "pooled:" + id, id, id
	case cBlockPooledBare:
		return base.BlockTypeSystemFlow, "", "", nil
	case cBlockBareOwn:
		return base.BlockTypeUnknown, "", "", nil
	}
	return base.BlockTypeHotSpotParamFlow, "msg:" + id, "", nil
}

const (
	sRecord = iota
	sPanicPassed
	sPanicBlocked
	sPanicCompleted
)

type slotSpec struct {
	Order uint32 `json:"o"`
	Beh   int    `json:"b"`
}

type Chain struct {
	Prep      []slotSpec `json:"prep"`
	Check     []slotSpec `json:"check"`
	Stat      []slotSpec `json:"stat"`
	ExitPanic bool       `json:"exit_handler_panics"`
	ExitErr   bool       `json:"exit_handler_returns_error"` // an exit handler that fails without panicking
	AtEpoch   bool       `json:"clock_at_zero"`              // the (virtual) clock reads 0 ms: a time like any other
	Follow    int        `json:"follow_up_entries"`
	Pre       int        `json:"earlier_blocked_entries"` // history before the entry under test
}

func (c Chain) String() string { b, _ := json.Marshal(c); return string(b) }

var log []string

type prepSlot struct {
	id string
	s  slotSpec
}

func (p *prepSlot) Order() uint32 { return orderVal(p.s.Order) }
func (p *prepSlot) Prepare(ctx *base.EntryContext) {
	log = append(log, "prepare:"+p.id)
	if p.s.Beh == pPanic {
		panic("prepare " + p.id)
	}
}

// orderVal: the two order values of the chains are the extremes of the type (0 and 2^32-1): "ascending order
// value" holds for them as for any other pair, and an implementation that computes with order values meets its
// edge cases
func orderVal(o uint32) uint32 {
	if o == 0 {
		return 0
	}
	return 1<<32 - 1
}

type testRule struct{ id string }

func (r *testRule) String() string       { return r.id }
func (r *testRule) ResourceName() string { return "x" }

type checkSlot struct {
	id   string
	s    slotSpec
	rule *testRule
}

func (c *checkSlot) Order() uint32 { return orderVal(c.s.Order) }
func (c *checkSlot) Check(ctx *base.EntryContext) *base.TokenResult {
	log = append(log, "check:"+c.id)
	switch c.s.Beh {
	case cNil:
		return nil
	case cPass:
		return base.NewTokenResultPass()
	case cBlockOwn:
		return base.NewTokenResultBlockedWithCause(base.BlockTypeFlow, "own:"+c.id, c.rule, c.id)
	case cBlockPooled:
		r := ctx.RuleCheckResult
		r.ResetToBlockedWithCause(base.BlockTypeIsolation, "pooled:"+c.id, c.rule, c.id)
		return r
	case cBlockPooledBare:
		r := ctx.RuleCheckResult
		r.ResetToBlocked(base.BlockTypeSystemFlow)
		return r
	case cBlockPooledMsg:
		r := ctx.RuleCheckResult
		r.ResetToBlockedWithMessage(base.BlockTypeHotSpotParamFlow, "msg:"+c.id)
		return r
	case cWait:
		return base.NewTokenResultShouldWait(1)
	case cBlockBareOwn:
		return base.NewTokenResult(base.ResultStatusBlocked)
	case cPanic:
		panic("check " + c.id)
	}
	panic("check " + c.id)
}

type statSlot struct {
	id string
	s  slotSpec
}

func (t *statSlot) Order() uint32 { return orderVal(t.s.Order) }
func (t *statSlot) OnEntryPassed(ctx *base.EntryContext) {
	log = append(log, "passed:"+t.id)
	if t.s.Beh == sPanicPassed {
		panic("stat " + t.id)
	}
}
func (t *statSlot) OnEntryBlocked(ctx *base.EntryContext, err *base.BlockError) {
	log = append(log, "blocked:"+t.id+":"+err.BlockMsg())
	if t.s.Beh == sPanicBlocked {
		panic("stat " + t.id)
	}
}
func (t *statSlot) OnCompleted(ctx *base.EntryContext) {
	log = append(log, "completed:"+t.id)
	if t.s.Beh == sPanicCompleted {
		panic("stat " + t.id)
	}
}

func build(c Chain) *base.SlotChain {
	sc := base.NewSlotChain()
	for i, s := range c.Prep {
		sc.AddStatPrepareSlot(&prepSlot{fmt.Sprint("p", i), s})
	}
	for i, s := range c.Check {
		id := fmt.Sprint("c", i)
		sc.AddRuleCheckSlot(&checkSlot{id, s, &testRule{id}})
	}
	for i, s := range c.Stat {
		sc.AddStatSlot(&statSlot{fmt.Sprint("s", i), s})
	}
	return sc
}

// stable order of insertion indices by order value
func stable(specs []slotSpec) []int {
	idx := make([]int, len(specs))
	for i := range idx {
		idx[i] = i
	}
	sort.SliceStable(idx, func(a, b int) bool { return specs[idx[a]].Order < specs[idx[b]].Order })
	return idx
}

// followChain blocks with a different error through the pooled result (recycles objects).
var followChains []*base.SlotChain

func init() {
	a := base.NewSlotChain()
	a.AddRuleCheckSlot(&checkSlot{"fa", slotSpec{0, cBlockPooled}, &testRule{"fa"}})
	b := base.NewSlotChain()
	b.AddRuleCheckSlot(&checkSlot{"fb", slotSpec{0, cBlockOwn}, &testRule{"fb"}})
	followChains = []*base.SlotChain{a, b}
}

type blkSnap struct {
	typ  base.BlockType
	msg  string
	rule base.SentinelRule
	val  interface{}
}

func snap(b *base.BlockError) blkSnap {
	return blkSnap{b.BlockType(), b.BlockMsg(), b.TriggeredRule(), b.TriggeredValue()}
}

// evaluate runs one chain program and returns (outcome key, violation)
func evaluate(c Chain) (out string, viol string) {
	if c.AtEpoch {
		env.ResetAll(env.DefaultGeometry, 0)
	} else {
		env.ResetAll(env.DefaultGeometry, 1700000000000)
	}
	log = log[:0]
	sc := build(c)
	// history: earlier entries blocked with a full cause through the pooled result; their context and
	// result objects are what the entry under test is handed by the pools
	for k := 0; k < c.Pre; k++ {
		sentinel.Entry(fmt.Sprint("earlier", k), sentinel.WithSlotChain(followChains[k%2]))
	}
	log = log[:0]
	defer func() {
		if r := recover(); r != nil {
			viol = fmt.Sprintf("a panic reached the caller: %v", r)
		}
	}()
	e, blk := sentinel.Entry("x", sentinel.WithSlotChain(sc))
	entryLog := append([]string(nil), log...)
	if (e == nil) == (blk == nil) {
		return "", "Entry returned neither or both of entry and block error"
	}
	// ---- expected behaviour of the Entry phase ----
	var want []string
	panicked := false
	for _, i := range stable(c.Prep) {
		want = append(want, fmt.Sprint("prepare:p", i))
		if c.Prep[i].Beh == pPanic {
			panicked = true
			break
		}
	}
	blockedBy := -1
	if !panicked {
		for _, i := range stable(c.Check) {
			want = append(want, fmt.Sprint("check:c", i))
			if c.Check[i].Beh == cPanic {
				panicked = true
				break
			}
			if blocks(c.Check[i].Beh) {
				blockedBy = i
				break
			}
		}
	}
	// the order / short-circuit part of the log is fully determined up to here
	if len(entryLog) < len(want) || strings.Join(entryLog[:len(want)], ",") != strings.Join(want, ",") {
		return "", fmt.Sprintf("prepare / rule-check slots ran as %v, expected %v (ascending order value, insertion order on ties, nothing after the first block)", entryLog, want)
	}
	rest := entryLog[len(want):]
	for _, l := range rest {
		if strings.HasPrefix(l, "prepare:") || strings.HasPrefix(l, "check:") {
			return "", fmt.Sprintf("slot call %s after the rule-check phase was over: %v", l, entryLog)
		}
	}
	statPanicsOnEntry := false
	if !panicked {
		// absent panics: every statistic slot hears the outcome exactly once, in order
		var ws []string
		for _, i := range stable(c.Stat) {
			if blockedBy >= 0 {
				_, m, _, _ := wantSnap(c.Check[blockedBy].Beh, fmt.Sprint("c", blockedBy))
				ws = append(ws, fmt.Sprintf("blocked:s%d:%s", i, m))
				if c.Stat[i].Beh == sPanicBlocked {
					statPanicsOnEntry = true
					break
				}
			} else {
				ws = append(ws, fmt.Sprint("passed:s", i))
				if c.Stat[i].Beh == sPanicPassed {
					statPanicsOnEntry = true
					break
				}
			}
		}
		if strings.Join(rest, ",") != strings.Join(ws, ",") {
			return "", fmt.Sprintf("statistic slots heard %v, expected %v", rest, ws)
		}
	}
	anyPanic := panicked || statPanicsOnEntry
	if anyPanic && blk != nil {
		return "", fmt.Sprintf("a slot panicked during Entry but the request was not admitted (block error %v)", blk)
	}
	if !anyPanic {
		if blockedBy >= 0 && blk == nil {
			return "", fmt.Sprintf("rule-check slot c%d blocked but Entry admitted the request", blockedBy)
		}
		if blockedBy < 0 && blk != nil {
			return "", fmt.Sprintf("no slot blocked but Entry returned %v", blk)
		}
	}
	var before blkSnap
	if blk != nil {
		before = snap(blk)
		wantType, wantMsg, wantRule, wantVal := wantSnap(c.Check[blockedBy].Beh, fmt.Sprint("c", blockedBy))
		gotRule := ""
		if r, _ := before.rule.(*testRule); r != nil {
			gotRule = r.id
		} else if before.rule != nil {
			gotRule = "?"
		}
		if before.msg != wantMsg || before.typ != wantType || gotRule != wantRule || before.val != wantVal {
			return "", fmt.Sprintf("block error %+v is not the one produced by the blocking slot c%d (type %v, message %q, rule %q, value %v)", before, blockedBy, wantType, wantMsg, wantRule, wantVal)
		}
	}
	// ---- follow-up traffic that recycles the pooled context / result ----
	for k := 0; k < c.Follow; k++ {
		e2, _ := sentinel.Entry(fmt.Sprint("other", k), sentinel.WithSlotChain(followChains[k%2]))
		if e2 != nil {
			e2.Exit()
		}
	}
	// a plain entry (no chain option) runs on the global chain: the pooled options of the entry under
	// test must not leak their chain into it
	{
		n := len(log)
		e3, b3 := sentinel.Entry("plain")
		if b3 != nil {
			return "", fmt.Sprintf("a plain entry after the entry under test was blocked: %v", b3)
		}
		if len(log) != n {
			return "", fmt.Sprintf("a plain entry after the entry under test ran slots of the custom chain: %v", log[n:])
		}
		if e3 != nil {
			e3.Exit()
			if len(log) != n {
				return "", fmt.Sprintf("the exit of a plain entry ran slots of the custom chain: %v", log[n:])
			}
		}
	}
	if blk != nil {
		if after := snap(blk); after != before {
			return "", fmt.Sprintf("the block error handed to the caller changed from %+v to %+v after %d further entries", before, after, c.Follow)
		}
	}
	// ---- exit ----
	if e != nil {
		if c.ExitPanic {
			e.WhenExit(func(*base.SentinelEntry, *base.EntryContext) error { panic("exit handler") })
		}
		if c.ExitErr {
			e.WhenExit(func(*base.SentinelEntry, *base.EntryContext) error { return errors.New("exit handler failed") })
		}
		n := len(log)
		e.Exit()
		e.Exit() // idempotent
		exitLog := log[n:]
		if !anyPanic && !c.ExitPanic {
			var ws []string
			for _, i := range stable(c.Stat) {
				ws = append(ws, fmt.Sprint("completed:s", i))
				if c.Stat[i].Beh == sPanicCompleted {
					break
				}
			}
			if strings.Join(exitLog, ",") != strings.Join(ws, ",") {
				return "", fmt.Sprintf("on Exit the statistic slots heard %v, expected %v", exitLog, ws)
			}
		}
	} else {
		for _, l := range log {
			if strings.HasPrefix(l, "completed:") {
				return "", "a blocked entry produced a completion callback"
			}
		}
	}
	return strings.Join(log, ","), ""
}

func enumSpecs(maxN int, nbeh int) [][]slotSpec {
	out := [][]slotSpec{{}}
	var rec func(cur []slotSpec)
	rec = func(cur []slotSpec) {
		if len(cur) == maxN {
			return
		}
		for o := uint32(0); o < 2; o++ {
			for b := 0; b < nbeh; b++ {
				nx := append(append([]slotSpec(nil), cur...), slotSpec{o, b})
				out = append(out, nx)
				rec(nx)
			}
		}
	}
	rec(nil)
	return out
}

func hasBlock(ck []slotSpec) bool {
	for _, s := range ck {
		if blocks(s.Beh) {
			return true
		}
	}
	return false
}

func signature(what string) string {
	switch {
	case strings.Contains(what, "plain entry"):
		return "C16:custom-chain-leaks-into-plain-entry"
	case strings.Contains(what, "call log differs"):
		return "C16:history-dependent"
	case strings.Contains(what, "panic reached the caller"):
		return "C16:panic-escapes"
	case strings.Contains(what, "ran as"), strings.Contains(what, "after the rule-check phase was over"):
		return "C16:order-or-short-circuit"
	case strings.Contains(what, "statistic slots heard"), strings.Contains(what, "on Exit"):
		return "C16:stat-callbacks"
	case strings.Contains(what, "not admitted"):
		return "C16:panic-not-fail-open"
	case strings.Contains(what, "changed from"):
		return "C16:block-error-mutated-later"
	case strings.Contains(what, "is not the one"):
		return "C16:wrong-block-error"
	}
	return "C16:other"
}

func run(c *props.Ctx) {
	np, ns := 2, 2
	if !c.Quick() {
		np, ns = 3, 3
	}
	preps := enumSpecs(np, 2)
	checks := enumSpecs(3, 9)
	stats := enumSpecs(ns, 4)
	c.R.Bounds["max_prepare_slots"] = np
	c.R.Bounds["max_rule_check_slots"] = 3
	c.R.Bounds["max_stat_slots"] = ns
	c.R.Bounds["chains"] = len(preps) * len(checks) * len(stats)
	idx, mine := 0, 0
	perSig := map[string]int{}
	for _, p := range preps {
		for _, ck := range checks {
			for _, st := range stats {
				idx++
				if !c.Mine(idx) {
					continue
				}
				mine++
				if mine%4096 == 0 && c.Expired() { // counted per shard: idx%4096 only ever coincides with shard 0's share
					c.R.Cap("time budget reached before all chains were evaluated")
					return
				}
				// the exit-handler / follow-up dimensions are spread deterministically over the chains
				ch := Chain{Prep: p, Check: ck, Stat: st, ExitPanic: (idx/3)%3 == 0, ExitErr: (idx/3)%3 == 2, Follow: idx % 3, AtEpoch: (idx/9)%2 == 1}
				out, v := evaluate(ch)
				c.R.Evaluations++
				c.R.Transitions++
				if v == "" && hasBlock(ck) {
					// the same chain from a non-initial state: after 1 and 2 earlier blocked entries
					for pre := 1; pre <= 2 && v == ""; pre++ {
						ch.Pre = pre
						var o2 string
						o2, v = evaluate(ch)
						c.R.Evaluations++
						c.R.Transitions++
						if v == "" && o2 != out {
							v = fmt.Sprintf("the call log differs after %d earlier blocked entries: %s vs %s", pre, o2, out)
						}
					}
				}
				if v != "" {
					sg := signature(v)
					perSig[sg]++
					if perSig[sg] <= 3 {
						c.R.Violate(report.Violation{Signature: sg, What: v, Scenario: ch.String(), Replay: ch})
					}
					continue
				}
				if idx%97 == 0 {
					c.R.Outcome(out)
				}
				if idx%500000 == 1 {
					c.R.Sample(map[string]interface{}{"chain": ch, "call_log": out})
				}
			}
		}
	}
	// long chains with many equal order values (library sorts switch algorithm above a dozen elements):
	// n tied slots and one with a lower order value registered last, in each phase; in the rule-check
	// phase every choice of the tied slot that blocks
	for _, n := range []int{12, 13, 14, 20, 33} {
		ties := func(beh int) []slotSpec {
			out := make([]slotSpec, 0, n+1)
			for i := 0; i < n; i++ {
				out = append(out, slotSpec{1, beh})
			}
			return append(out, slotSpec{0, beh})
		}
		var chains []Chain
		chains = append(chains, Chain{Prep: ties(pOK), Check: ties(cNil), Stat: ties(sRecord)})
		for j := 0; j < n; j++ {
			ck := ties(cNil)
			ck[j].Beh = cBlockPooled
			chains = append(chains, Chain{Check: ck, Stat: ties(sRecord)})
			ck2 := ties(cNil)
			ck2[j].Beh = cBlockOwn
			ck2[(j+n/2)%n].Beh = cBlockPooledBare
			chains = append(chains, Chain{Check: ck2, Stat: []slotSpec{{0, sRecord}}, Follow: 1})
		}
		for _, ch := range chains {
			idx++
			if !c.Mine(idx) {
				continue
			}
			out, v := evaluate(ch)
			c.R.Evaluations++
			c.R.Transitions++
			if v != "" {
				sg := signature(v)
				perSig[sg]++
				if perSig[sg] <= 3 {
					c.R.Violate(report.Violation{Signature: sg, What: v, Scenario: ch.String(), Replay: ch})
				}
				continue
			}
			if idx%7 == 0 {
				c.R.Outcome(out)
			}
		}
	}
	c.R.Bounds["long_tied_chains_up_to_slots"] = 34
	c.R.States = c.R.Evaluations
	c.R.Traces = c.R.Evaluations
}

func replay(c *props.Ctx, raw json.RawMessage) (bool, string) {
	var ch Chain
	if err := json.Unmarshal(raw, &ch); err != nil {
		return false, err.Error()
	}
	_, v := evaluate(ch)
	return v != "", v
}

func init() {
	props.Register(&props.Prop{ID: "C16", Run: run, Replay: replay})
}
