// Package c04: an isolation rule caps the in-flight entries of a resource at its threshold.
//
// Engine B: all histories of Entry (several batch sizes, including values near 2^31 and
// 2^32) and Exit in any order over two resources, up to a depth bound, per rule set, against
// an unbounded-integer in-flight reference. Engine A: k concurrent callers at
// admission-path granularity.
package c04

import (
	"encoding/json"
	"fmt"
	"strings"

	sentinel "github.com/alibaba/sentinel-golang/api"
	"github.com/alibaba/sentinel-golang/core/base"
	"github.com/alibaba/sentinel-golang/core/isolation"
	"github.com/alibaba/sentinel-golang/core/stat"
	"github.com/alibaba/sentinel-golang/verifshim/vsched"

	"verifharness/chainx"
	"verifharness/engine/sched"
	"verifharness/engine/seq"
	"verifharness/env"
	"verifharness/props"
	"verifharness/report"
)

type Config struct {
	A []uint32 `json:"a"` // thresholds of the rules on resource a, in list order
	B []uint32 `json:"b"`
	// SameID: every rule carries the same non-empty ID (an ID is a label, not a key)
	SameID bool `json:"same_id,omitempty"`
	// AtEpoch: the (virtual) clock reads 0 ms throughout: in-flight counting does not depend on the time
	AtEpoch bool `json:"clock_at_zero,omitempty"`
}

func (c Config) String() string { b, _ := json.Marshal(c); return string(b) }

type opDef struct {
	back  bool // the clock steps back by 10 ms (a corrected wall clock): counting in-flight entries does not depend on time
	enter bool
	res   string
	batch uint32
	slot  int
}

func (o opDef) String() string {
	if o.back {
		return "clock-steps-back(10ms)"
	}
	if o.enter {
		return fmt.Sprintf("E(%s,%d)", o.res, o.batch)
	}
	return fmt.Sprintf("X(%d)", o.slot)
}

const maxLive = 4

type scen struct {
	stepped bool // the clock has stepped back once
	cfg     Config
	ops     []opDef
	rules   map[string][]*isolation.Rule
	live    [maxLive]*base.SentinelEntry
	lres    [maxLive]string
}

func (s *scen) Name() string        { return s.cfg.String() }
func (s *scen) NumOps() int         { return len(s.ops) }
func (s *scen) OpName(i int) string { return s.ops[i].String() }

func (s *scen) Enabled(i int) bool {
	o := s.ops[i]
	if o.back {
		return !s.stepped && !s.cfg.AtEpoch
	}
	if o.enter {
		for _, e := range s.live {
			if e == nil {
				return true
			}
		}
		return false
	}
	return s.live[o.slot] != nil
}

func (s *scen) Reset() {
	s.stepped = false
	if s.cfg.AtEpoch {
		env.ResetAll(env.DefaultGeometry, 0)
	} else {
		env.ResetAll(env.DefaultGeometry, 1700000000000)
	}
	s.rules = map[string][]*isolation.Rule{}
	var all []*isolation.Rule
	for i, n := range s.cfg.A {
		r := &isolation.Rule{ID: fmt.Sprintf("a%d", i), Resource: "a", MetricType: isolation.Concurrency, Threshold: n}
		if s.cfg.SameID {
			r.ID = "same"
		}
		s.rules["a"] = append(s.rules["a"], r)
		all = append(all, r)
	}
	for i, n := range s.cfg.B {
		r := &isolation.Rule{ID: fmt.Sprintf("b%d", i), Resource: "b", MetricType: isolation.Concurrency, Threshold: n}
		if s.cfg.SameID {
			r.ID = "same"
		}
		s.rules["b"] = append(s.rules["b"], r)
		all = append(all, r)
	}
	if _, err := isolation.LoadRules(all); err != nil {
		panic(err)
	}
	for i := range s.live {
		s.live[i] = nil
		s.lres[i] = ""
	}
}

func (s *scen) inflight(res string) int64 {
	var n int64
	for i, e := range s.live {
		if e != nil && s.lres[i] == res {
			n++
		}
	}
	return n
}

func (s *scen) gaugeCheck() string {
	for _, res := range []string{"a", "b"} {
		n := stat.GetResourceNode(res)
		if n == nil {
			continue
		}
		if g, w := int64(n.CurrentConcurrency()), s.inflight(res); g != w {
			return fmt.Sprintf("in-flight gauge of %s = %d, reference %d", res, g, w)
		}
	}
	return ""
}

func (s *scen) Apply(i int) (string, string) {
	o := s.ops[i]
	if o.back {
		s.stepped = true
		env.Clock.SetMs(env.Clock.Ms() - 10)
		return "back", s.gaugeCheck()
	}
	if !o.enter {
		s.live[o.slot].Exit()
		s.live[o.slot] = nil
		s.lres[o.slot] = ""
		return "x", s.gaugeCheck()
	}
	cur := s.inflight(o.res)
	blockedBy := -1
	for ri, r := range s.rules[o.res] {
		if cur+int64(o.batch) > int64(r.Threshold) { // unbounded integers
			blockedBy = ri
			break
		}
	}
	e, blk := sentinel.Entry(o.res, batchOpt(o.batch)...)
	obs := "pass"
	if blk != nil {
		obs = "block"
		if blk.BlockType() != base.BlockTypeIsolation {
			return obs, fmt.Sprintf("%v blocked with type %v", o, blk.BlockType())
		}
		if blockedBy < 0 {
			return obs, fmt.Sprintf("%v rejected although in-flight=%d and thresholds are %v", o, cur, s.thresholds(o.res))
		}
		if tr, _ := blk.TriggeredRule().(*isolation.Rule); tr != s.rules[o.res][blockedBy] {
			return obs, fmt.Sprintf("%v rejected by rule %v, expected first violated rule #%d", o, blk.TriggeredRule(), blockedBy)
		}
		if tv, ok := blk.TriggeredValue().(uint32); !ok || int64(tv) != cur {
			return obs, fmt.Sprintf("%v triggered value %v, in-flight reference %d", o, blk.TriggeredValue(), cur)
		}
	} else {
		if e == nil {
			return obs, "Entry returned neither entry nor block"
		}
		if blockedBy >= 0 {
			// keep the entry out of the table but release it so later state is not polluted
			e.Exit()
			return obs, fmt.Sprintf("%v admitted although in-flight=%d + batch exceeds threshold %d", o, cur, s.rules[o.res][blockedBy].Threshold)
		}
		for k := range s.live {
			if s.live[k] == nil {
				s.live[k], s.lres[k] = e, o.res
				break
			}
		}
	}
	return obs, s.gaugeCheck()
}

func (s *scen) thresholds(res string) []uint32 {
	var out []uint32
	for _, r := range s.rules[res] {
		out = append(out, r.Threshold)
	}
	return out
}

func (s *scen) Key() string {
	var b strings.Builder
	fmt.Fprintf(&b, "%v|", s.stepped)
	for i, e := range s.live {
		if e != nil {
			b.WriteString(s.lres[i])
		} else {
			b.WriteString("-")
		}
	}
	for _, res := range []string{"a", "b"} {
		if n := stat.GetResourceNode(res); n != nil {
			fmt.Fprintf(&b, "|%d", n.CurrentConcurrency())
		}
	}
	return b.String()
}

func mkOps(cfg Config) []opDef {
	var ops []opDef
	// 0 is a legal batch count: such an entry needs no capacity but is in flight until it is exited
	bs := map[uint32]bool{0: true, 1: true, 2: true, 1 << 31: true, 1<<32 - 1: true, 1<<32 - 2: true}
	for _, n := range append(append([]uint32{}, cfg.A...), cfg.B...) {
		bs[n] = true
		bs[n+1] = true
	}
	var list []uint32
	for b := range bs {
		list = append(list, b)
	}
	// deterministic order, simplest first
	for i := 0; i < len(list); i++ {
		for j := i + 1; j < len(list); j++ {
			if list[j] < list[i] {
				list[i], list[j] = list[j], list[i]
			}
		}
	}
	for _, res := range []string{"a", "b"} {
		for _, b := range list {
			ops = append(ops, opDef{enter: true, res: res, batch: b})
		}
	}
	for k := 0; k < maxLive; k++ {
		ops = append(ops, opDef{slot: k})
	}
	ops = append(ops, opDef{back: true})
	return ops
}

func configs() []Config {
	return []Config{
		{A: []uint32{1}}, {A: []uint32{2}}, {A: []uint32{3}},
		{A: []uint32{2}, B: []uint32{1}}, {A: []uint32{3, 2}}, {A: []uint32{2, 3}}, {A: []uint32{1, 3}, B: []uint32{2}},
		{A: []uint32{1<<32 - 1}},
		{A: []uint32{2, 3}, SameID: true}, {A: []uint32{1, 3}, B: []uint32{2}, SameID: true},
		{A: []uint32{2}, B: []uint32{1}, AtEpoch: true},
	}
}

func signature(what string) string {
	switch {
	case strings.Contains(what, "admitted although"):
		if strings.Contains(what, ",2147483648)") || strings.Contains(what, ",429496729") {
			return "C04:over-admission:batch-near-2^32"
		}
		return "C04:over-admission"
	case strings.Contains(what, "rejected although"):
		return "C04:spurious-rejection"
	case strings.Contains(what, "gauge"):
		return "C04:gauge-mismatch"
	case strings.Contains(what, "triggered value"):
		return "C04:triggered-value"
	}
	return "C04:other"
}

type replayDoc struct {
	Kind string   `json:"kind"`
	Cfg  Config   `json:"cfg"`
	Path []int    `json:"path"`
	Ops  []string `json:"ops"`
}

func run(c *props.Ctx) {
	depth := 7
	if !c.Quick() {
		depth = 9
	}
	c.R.Bounds["depth"] = depth
	cfgs := configs()
	for i, cfg := range cfgs {
		if !c.Mine(i) {
			continue
		}
		s := &scen{cfg: cfg, ops: mkOps(cfg)}
		res := seq.Explore(s, seq.Options{Depth: depth, Deadline: c.Deadline, Classify: signature})
		c.R.States += int64(res.States)
		c.R.Transitions += res.Transitions
		c.R.Evaluations += res.Transitions
		c.R.Traces += res.Transitions
		for o := range res.Obs {
			c.R.Outcome(fmt.Sprintf("%d|%s", i, o))
		}
		if res.CapHit != "" && res.CapHit != "violation limit" {
			c.R.Cap(res.CapHit)
		}
		c.R.Sample(map[string]interface{}{"config": cfg, "states": res.States, "transitions": res.Transitions, "depth": res.Depth, "path": res.SamplePath})
		for _, v := range res.Violations {
			c.R.Violate(report.Violation{Signature: signature(v.What), What: v.What, Scenario: cfg.String() + " " + strings.Join(v.Ops, " "),
				Replay: replayDoc{Kind: "seq", Cfg: cfg, Path: v.Path, Ops: v.Ops}})
		}
	}
	runConc(c, len(cfgs))
	if c.Shard == 0 {
		lateResource(c)
	}
}

// lateResource: the cap holds for a resource that is first entered when the process already tracks
// the default maximum number of resources (10000) - a numeric threshold in the node storage that no
// bounded history reaches from the initial state.
func lateResource(c *props.Ctx) {
	env.ResetAll(env.DefaultGeometry, 1700000000000)
	for i := 0; i < int(base.DefaultMaxResourceAmount)+5; i++ {
		stat.GetOrCreateResourceNode(fmt.Sprintf("x%05d", i), base.ResTypeCommon)
	}
	rule := &isolation.Rule{Resource: "late", MetricType: isolation.Concurrency, Threshold: 2}
	if _, err := isolation.LoadRules([]*isolation.Rule{rule}); err != nil {
		panic(err)
	}
	var live []*base.SentinelEntry
	what := ""
	step := func(name string, wantPass bool) {
		if what != "" {
			return
		}
		e, blk := sentinel.Entry("late")
		if (blk == nil) != wantPass {
			what = fmt.Sprintf("resource entered after %d other resources, rule N=2, %s: admitted=%v with %d entries in flight", base.DefaultMaxResourceAmount+5, name, blk == nil, len(live))
		}
		if e != nil {
			live = append(live, e)
		}
		if n := stat.GetResourceNode("late"); what == "" && (n == nil || int(n.CurrentConcurrency()) != len(live)) {
			what = fmt.Sprintf("resource entered after %d other resources, %s: in-flight gauge does not equal the %d live entries (node %v)", base.DefaultMaxResourceAmount+5, name, len(live), n != nil)
		}
	}
	step("first", true)
	step("second", true)
	step("third", false)
	if what == "" && len(live) > 0 {
		live[0].Exit()
		live = live[1:]
	}
	step("after one exit", true)
	step("again at the cap", false)
	for _, e := range live {
		e.Exit()
	}
	c.R.Evaluations += 5
	c.R.Transitions += 5
	c.R.Outcome("late-resource")
	c.R.Bounds["late_resource_after_resources"] = int(base.DefaultMaxResourceAmount) + 5
	if what != "" {
		c.R.Violate(report.Violation{Signature: "C04:late-resource", What: what, Scenario: "late resource", Replay: replayDoc{Kind: "late"}})
	}
}

// ---- concurrent callers at admission-path granularity ----

type concScen struct {
	N       uint32     `json:"n"`
	Callers [][]uint32 `json:"callers"` // per caller: batch of each Entry; every entry is exited right after
	Hold    bool       `json:"hold"`    // callers keep their entries until the end (max pressure)
	chain   *base.SlotChain
	hooks   chainx.Hooks
	rule    *isolation.Rule
	inflt   int64 // recorded in-flight entries (updated in the statistic phase / on exit)
	maxSeen int64
	reqs    []*creq
	cur     map[int]*creq
}

type creq struct {
	caller int
	batch  uint32
	snap   int64
	passed bool
	done   bool
	blkVal uint32
}

func (s *concScen) name() string { b, _ := json.Marshal(s); return string(b) }

func (s *concScen) setup() {
	env.ResetAll(env.DefaultGeometry, 1700000000000)
	s.rule = &isolation.Rule{Resource: "a", MetricType: isolation.Concurrency, Threshold: s.N}
	if _, err := isolation.LoadRules([]*isolation.Rule{s.rule}); err != nil {
		panic(err)
	}
	s.inflt, s.maxSeen = 0, 0
	s.cur = map[int]*creq{}
	s.reqs = s.reqs[:0]
	s.hooks = chainx.Hooks{
		BeforeChecks: func(ctx *base.EntryContext) { s.cur[vsched.Cur()].snap = s.inflt },
		Passed: func(ctx *base.EntryContext) {
			s.inflt++
			if s.inflt > s.maxSeen {
				s.maxSeen = s.inflt
			}
		},
		Completed: func(ctx *base.EntryContext) { s.inflt-- },
	}
	s.chain = chainx.NewPhaseChain(&s.hooks)
	for ci, bs := range s.Callers {
		for _, b := range bs {
			s.reqs = append(s.reqs, &creq{caller: ci, batch: b})
		}
	}
}

func (s *concScen) threads() []func() {
	fns := make([]func(), len(s.Callers))
	for ci := range s.Callers {
		ci := ci
		fns[ci] = func() {
			var held []*base.SentinelEntry
			for _, r := range s.reqs {
				if r.caller != ci {
					continue
				}
				vsched.Point(vsched.KUser, nil)
				s.cur[ci] = r
				e, blk := sentinel.Entry("a", sentinel.WithBatchCount(r.batch), sentinel.WithSlotChain(s.chain))
				if blk != nil {
					r.blkVal, _ = blk.TriggeredValue().(uint32)
				} else {
					r.passed = true
					if s.Hold {
						held = append(held, e)
					} else {
						vsched.Point(vsched.KUser, nil)
						e.Exit()
					}
				}
				r.done = true
			}
			for _, e := range held {
				vsched.Point(vsched.KUser, nil)
				e.Exit()
			}
		}
	}
	return fns
}

func (s *concScen) check(x *vsched.Exec) (string, string) {
	out := ""
	k := int64(len(s.Callers))
	for _, r := range s.reqs {
		if !r.done {
			return "UNFINISHED", "a request did not finish"
		}
		want := r.snap+int64(r.batch) <= int64(s.N)
		if r.passed {
			out += "P"
		} else {
			out += "B"
		}
		if r.passed != want {
			return out, fmt.Sprintf("caller %d batch %d: admitted=%v although %d entries were in flight at its check (N=%d)", r.caller, r.batch, r.passed, r.snap, s.N)
		}
		if !r.passed && int64(r.blkVal) != r.snap {
			return out, fmt.Sprintf("caller %d: triggered value %d, in flight at its check %d", r.caller, r.blkVal, r.snap)
		}
	}
	if s.maxSeen > int64(s.N)+(k-1) {
		return out, fmt.Sprintf("%d entries in flight, more than N + (k-1) = %d", s.maxSeen, int64(s.N)+k-1)
	}
	if g := stat.GetResourceNode("a").CurrentConcurrency(); g != 0 {
		return out, fmt.Sprintf("gauge %d after everything exited", g)
	}
	return fmt.Sprintf("%s/max%d", out, s.maxSeen), ""
}

func (s *concScen) scenario() *sched.Scenario {
	return &sched.Scenario{Name: s.name(), Setup: s.setup, Threads: s.threads, Check: s.check, Filter: chainx.OnlyUser, MaxSteps: 100000}
}

type concReplay struct {
	Kind    string   `json:"kind"`
	Scen    concScen `json:"scen"`
	Choices []int    `json:"choices"`
}

func runConc(c *props.Ctx, base int) {
	var all []*concScen
	callers := [][][]uint32{{{1}, {1}}, {{1, 1}, {1}}, {{1, 1}, {1, 1}}, {{1}, {1}, {1}}, {{1, 1}, {1}, {1}}, {{2}, {1}, {1}}}
	if !c.Quick() {
		callers = append(callers, [][]uint32{{1, 1}, {1, 1}, {1}}, [][]uint32{{1, 1}, {1, 1}, {1, 1}})
	}
	for _, n := range []uint32{1, 2, 3} {
		for _, cs := range callers {
			for _, hold := range []bool{false, true} {
				all = append(all, &concScen{N: n, Callers: cs, Hold: hold})
			}
		}
	}
	c.R.Bounds["concurrent_scenarios"] = len(all)
	for i, s := range all {
		if !c.Mine(base + i) {
			continue
		}
		res := sched.Explore(s.scenario(), sched.Options{Bound: 1 << 30, Deadline: c.Deadline, MaxExecs: 3000000})
		c.R.Evaluations += int64(res.Execs)
		c.R.Traces += int64(res.Execs)
		c.R.Transitions += res.Steps
		c.R.States += int64(res.States)
		for o := range res.Outcomes {
			c.R.Outcome("conc|" + s.name() + "|" + o)
		}
		if res.HarnessErr != "" {
			c.R.HarnessError(s.name() + ": " + res.HarnessErr)
		}
		if res.CapHit != "" {
			c.R.Cap(res.CapHit)
		}
		if i%9 == 0 {
			c.R.Sample(map[string]interface{}{"concurrent": s.name(), "interleavings": res.Execs, "outcomes": len(res.Outcomes)})
		}
		for _, v := range res.Violations {
			sig := "C04:concurrent:decision-not-by-gauge"
			if strings.Contains(v.What, "more than N") {
				sig = "C04:concurrent:excess-beyond-k-1"
			} else if strings.Contains(v.What, "gauge") {
				sig = "C04:concurrent:gauge-leak"
			}
			c.R.Violate(report.Violation{Signature: sig, What: v.What, Scenario: s.name(), Replay: concReplay{Kind: "conc", Scen: *s, Choices: v.Choices}})
		}
	}
}

func replay(c *props.Ctx, raw json.RawMessage) (bool, string) {
	var d replayDoc
	if err := json.Unmarshal(raw, &d); err != nil {
		return false, err.Error()
	}
	if d.Kind == "conc" {
		var cd concReplay
		_ = json.Unmarshal(raw, &cd)
		_, w := sched.Replay(cd.Scen.scenario(), cd.Choices, nil)
		return w != "", w
	}
	s := &scen{cfg: d.Cfg, ops: mkOps(d.Cfg)}
	w := seq.Replay(s, d.Path)
	return w != "", w
}

func init() {
	props.Register(&props.Prop{ID: "C04", Run: run, Replay: replay})
}

// batchOpt passes the batch count the way callers do: a request of one token names no batch count at all, so
// the default of the (pooled) entry options is part of what is checked.
func batchOpt(b uint32) []sentinel.EntryOption {
	if b == 1 {
		return nil
	}
	return []sentinel.EntryOption{sentinel.WithBatchCount(b)}
}
