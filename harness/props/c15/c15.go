// Package c15: the public API is race free and rule switches are atomic under live traffic.
//
// Engine A under the Go race detector. The worker for this property is built with -race;
// the controlled scheduler's hand-off is invisible to the detector (//go:norace spin on a
// plain word), the shim primitives wrap the real ones, so the detector sees exactly the
// program's own synchronisation while every schedule with at most 1 (quick) / 2 (thorough)
// preemptions of two API callers is enumerated. Each execution is judged by (i) the detector
// (a new report = violation, with both stacks), (ii) no panic / deadlock, (iii) the racing
// request is decided entirely by the old or entirely by the new rule list, (iv) a request on
// another resource is unaffected.
package c15

import (
	"encoding/json"
	"errors"
	"fmt"
	"os"
	"strings"

	sentinel "github.com/alibaba/sentinel-golang/api"
	"github.com/alibaba/sentinel-golang/core/base"
	cb "github.com/alibaba/sentinel-golang/core/circuitbreaker"
	"github.com/alibaba/sentinel-golang/core/flow"
	"github.com/alibaba/sentinel-golang/core/hotspot"
	"github.com/alibaba/sentinel-golang/core/isolation"
	"github.com/alibaba/sentinel-golang/core/outlier"
	"github.com/alibaba/sentinel-golang/core/stat"
	"github.com/alibaba/sentinel-golang/core/system"
	"github.com/alibaba/sentinel-golang/verifshim/vsched"

	"verifharness/engine/sched"
	"verifharness/env"
	"verifharness/props"
	"verifharness/racecheck"
	"verifharness/report"
)

var bizErr = errors.New("biz")

// an actor is one thread body; it returns an observation string
type actor struct {
	Name string
	Run  func() string
	// Allowed observations (nil = anything)
	Allowed []string
}

type scenario struct {
	Name   string
	Setup  func()
	Actors []actor
	Three  bool // three threads, or two complete request lifecycles: explored one preemption shallower
	obs    []string
	errs0  int
}

func ruleID(r base.SentinelRule) string {
	switch x := r.(type) {
	case *flow.Rule:
		return x.ID
	case *isolation.Rule:
		return x.ID
	case *hotspot.Rule:
		return x.ID
	case *cb.Rule:
		return x.Id
	case *system.Rule:
		return x.ID
	}
	return "?"
}

func traffic(res string, traced bool, opts ...sentinel.EntryOption) func() string {
	return func() string {
		e, blk := sentinel.Entry(res, opts...)
		if blk != nil {
			if blk.TriggeredRule() == nil {
				return "blocked"
			}
			return "blocked-by:" + ruleID(blk.TriggeredRule())
		}
		if traced {
			sentinel.TraceError(e, bizErr)
		}
		e.Exit()
		return "pass"
	}
}

func must(_ bool, err error) {
	if err != nil {
		panic(err)
	}
}

// ---- per-module rule lists: "o" (old) and "n" (new) both block the probe traffic on a; "b" blocks on b ----

type modDef struct {
	name      string
	load      func(ids ...string) // whole-set load of rules with these ids (resource = id[0:1])
	loadRes   func(res string, ids ...string)
	clear     func()
	clearRes  func(res string)
	get       func() string
	getRes    func(res string) string
	trafficOp []sentinel.EntryOption
	// trafficOp2: a second request shape that meets the same rule with a different per-value state
	trafficOp2 []sentinel.EntryOption
	afterLoad  func() // e.g. trip breakers
	newPasses  bool   // a freshly loaded rule does not block yet (circuit breaker)
}

func mods() []modDef {
	// ids ending in "p" name permissive rules (the request passes through the rule's machinery)
	perm := func(id string) bool { return id[len(id)-1] == 'p' }
	// ids ending in "i" name invalid rules (a load that consists of them leaves the resource without rules)
	inval := func(id string) bool { return id[len(id)-1] == 'i' }
	fl := func(id string) *flow.Rule {
		r := &flow.Rule{ID: id, Resource: id[:1], Threshold: 0}
		if perm(id) {
			r.Threshold, r.StatIntervalInMs = 1e9, 700 // standalone window: the standalone stat slot is exercised too
		}
		if inval(id) {
			r.Threshold = -1
		}
		return r
	}
	is := func(id string) *isolation.Rule {
		r := &isolation.Rule{ID: id, Resource: id[:1], MetricType: isolation.Concurrency, Threshold: 1}
		if perm(id) {
			r.Threshold = 1000000
		}
		if inval(id) {
			r.Threshold = 0
		}
		return r
	}
	hs := func(id string) *hotspot.Rule {
		r := &hotspot.Rule{ID: id, Resource: id[:1], MetricType: hotspot.QPS, Threshold: 0, DurationInSec: 1}
		if perm(id) {
			r.Threshold = 1000000
		}
		if inval(id) {
			r.Threshold = -1
		}
		return r
	}
	br := func(id string) *cb.Rule {
		r := &cb.Rule{Id: id, Resource: id[:1], Strategy: cb.ErrorCount, RetryTimeoutMs: 1000000, MinRequestAmount: 1, StatIntervalMs: 10000, Threshold: 1}
		if perm(id) {
			r.Threshold = 1000000
		}
		if inval(id) {
			r.Threshold = -1
		}
		return r
	}
	var out []modDef
	out = append(out, modDef{name: "flow",
		load: func(ids ...string) {
			var rs []*flow.Rule
			for _, id := range ids {
				rs = append(rs, fl(id))
			}
			must(flow.LoadRules(rs))
		},
		loadRes: func(res string, ids ...string) {
			var rs []*flow.Rule
			for _, id := range ids {
				rs = append(rs, fl(id))
			}
			must(flow.LoadRulesOfResource(res, rs))
		},
		clear:    func() { _ = flow.ClearRules() },
		clearRes: func(res string) { _ = flow.ClearRulesOfResource(res) },
		get:      func() string { return fmt.Sprint(len(flow.GetRules())) },
		getRes:   func(res string) string { return fmt.Sprint(len(flow.GetRulesOfResource(res))) },
	})
	out = append(out, modDef{name: "isolation",
		load: func(ids ...string) {
			var rs []*isolation.Rule
			for _, id := range ids {
				rs = append(rs, is(id))
			}
			must(isolation.LoadRules(rs))
		},
		loadRes: func(res string, ids ...string) {
			var rs []*isolation.Rule
			for _, id := range ids {
				rs = append(rs, is(id))
			}
			must(isolation.LoadRulesOfResource(res, rs))
		},
		clear:     func() { _ = isolation.ClearRules() },
		clearRes:  func(res string) { _ = isolation.ClearRulesOfResource(res) },
		get:       func() string { return fmt.Sprint(len(isolation.GetRules())) },
		getRes:    func(res string) string { return fmt.Sprint(len(isolation.GetRulesOfResource(res))) },
		trafficOp: []sentinel.EntryOption{sentinel.WithBatchCount(2)},
	})
	// hotspot rules come in two kinds with separate per-value machinery (token buckets / in-flight counters)
	hsc := func(id string) *hotspot.Rule {
		r := hs(id)
		r.MetricType = hotspot.Concurrency
		return r
	}
	for _, hv := range []struct {
		name string
		mk   func(string) *hotspot.Rule
	}{{"hotspot", hs}, {"hotspot-concurrency", hsc}} {
		hv := hv
		out = append(out, modDef{name: hv.name,
			load: func(ids ...string) {
				var rs []*hotspot.Rule
				for _, id := range ids {
					rs = append(rs, hv.mk(id))
				}
				must(hotspot.LoadRules(rs))
			},
			loadRes: func(res string, ids ...string) {
				var rs []*hotspot.Rule
				for _, id := range ids {
					rs = append(rs, hv.mk(id))
				}
				must(hotspot.LoadRulesOfResource(res, rs))
			},
			clear:      func() { _ = hotspot.ClearRules() },
			clearRes:   func(res string) { _ = hotspot.ClearRulesOfResource(res) },
			get:        func() string { return fmt.Sprint(len(hotspot.GetRules())) },
			getRes:     func(res string) string { return fmt.Sprint(len(hotspot.GetRulesOfResource(res))) },
			trafficOp:  []sentinel.EntryOption{sentinel.WithArgs("v")},
			trafficOp2: []sentinel.EntryOption{sentinel.WithArgs("w")},
		})
	}
	out = append(out, modDef{name: "circuitbreaker",
		load: func(ids ...string) {
			var rs []*cb.Rule
			for _, id := range ids {
				rs = append(rs, br(id))
			}
			must(cb.LoadRules(rs))
		},
		loadRes: func(res string, ids ...string) {
			var rs []*cb.Rule
			for _, id := range ids {
				rs = append(rs, br(id))
			}
			must(cb.LoadRulesOfResource(res, rs))
		},
		clear:    func() { _ = cb.ClearRules() },
		clearRes: func(res string) { _ = cb.ClearRulesOfResource(res) },
		get:      func() string { return fmt.Sprint(len(cb.GetRules())) },
		getRes:   func(res string) string { return fmt.Sprint(len(cb.GetRulesOfResource(res))) },
		afterLoad: func() {
			for _, res := range []string{"a", "b"} {
				if e, blk := sentinel.Entry(res); blk == nil {
					e.Exit(base.WithError(bizErr)) // trips the breakers: they block from now on
				}
			}
		},
		newPasses: true,
	})
	return out
}

func moduleScenarios(m modDef, quick bool) []*scenario {
	var out []*scenario
	setup := func() {
		env.ResetAll(env.DefaultGeometry, 1700000000000)
		m.load("ao", "bo")
		if m.afterLoad != nil {
			m.afterLoad()
		}
	}
	newDecision := "blocked-by:an"
	if m.newPasses {
		newDecision = "pass"
	}
	type wr struct {
		name    string
		run     func()
		allowed []string // decisions of concurrent traffic on a
	}
	writers := []wr{
		{"LoadRules([an,bo])", func() { m.load("an", "bo") }, []string{"blocked-by:ao", newDecision}},
		{"LoadRulesOfResource(a,[an])", func() { m.loadRes("a", "an") }, []string{"blocked-by:ao", newDecision}},
		{"LoadRulesOfResource(c,[cn])", func() { m.loadRes("c", "cn") }, []string{"blocked-by:ao"}},
		{"ClearRules()", func() { m.clear() }, []string{"blocked-by:ao", "pass"}},
		{"ClearRulesOfResource(a)", func() { m.clearRes("a") }, []string{"blocked-by:ao", "pass"}},
		{"LoadRules([ao,an,bo])", func() { m.load("ao", "an", "bo") }, []string{"blocked-by:ao"}},
		// a load that consists of invalid rules only: the resource is left without rules
		{"LoadRulesOfResource(a,[invalid])", func() { m.loadRes("a", "ai") }, []string{"blocked-by:ao", "pass"}},
		{"LoadRulesOfResource(c,[invalid])", func() { m.loadRes("c", "ci") }, []string{"blocked-by:ao"}},
	}
	for _, w := range writers {
		w := w
		wa := actor{Name: w.name, Run: func() string { w.run(); return "" }}
		// (iii) traffic on a while its rules are switched
		out = append(out, &scenario{Name: m.name + ": traffic(a) || " + w.name, Setup: setup,
			Actors: []actor{{Name: "traffic(a)", Run: traffic("a", true, m.trafficOp...), Allowed: w.allowed}, wa}})
		// (iv) traffic on b while a's rules are switched (b's own rule is untouched by these writers)
		if !strings.HasPrefix(w.name, "ClearRules()") {
			out = append(out, &scenario{Name: m.name + ": traffic(b) || " + w.name, Setup: setup,
				Actors: []actor{{Name: "traffic(b)", Run: traffic("b", false, m.trafficOp...), Allowed: []string{"blocked-by:bo"}}, wa}})
		}
		// readers while writing
		out = append(out, &scenario{Name: m.name + ": GetRules || " + w.name, Setup: setup,
			Actors: []actor{{Name: "GetRules", Run: m.get}, wa}})
		if !quick || w.name == "LoadRulesOfResource(a,[an])" {
			out = append(out, &scenario{Name: m.name + ": GetRulesOfResource(a) || " + w.name, Setup: setup,
				Actors: []actor{{Name: "GetRulesOfResource(a)", Run: func() string { return m.getRes("a") }}, wa}})
		}
	}
	// a's list shrinks while a kept rule is NOT the last of the old list: rebuilding must not disturb the
	// list that requests in flight are iterating (old [ao,ap] and new [ao] both block through ao)
	setupTwo := func() {
		env.ResetAll(env.DefaultGeometry, 1700000000000)
		m.load("ao", "ap", "bo")
		if m.afterLoad != nil {
			m.afterLoad()
		}
	}
	for _, w := range []wr{
		{"LoadRulesOfResource(a,[ao]) over [ao,ap]", func() { m.loadRes("a", "ao") }, []string{"blocked-by:ao"}},
		{"LoadRules([ao,bo]) over [ao,ap,bo]", func() { m.load("ao", "bo") }, []string{"blocked-by:ao"}},
		{"LoadRulesOfResource(a,[ap]) over [ao,ap]", func() { m.loadRes("a", "ap") }, []string{"blocked-by:ao", "pass"}},
	} {
		w := w
		out = append(out, &scenario{Name: m.name + ": traffic(a) || " + w.name, Setup: setupTwo,
			Actors: []actor{{Name: "traffic(a)", Run: traffic("a", true, m.trafficOp...), Allowed: w.allowed}, {Name: w.name, Run: func() string { w.run(); return "" }}}})
	}
	if !quick {
		for _, w := range writers[:2] {
			w := w
			out = append(out, &scenario{Name: m.name + ": traffic(a) || GetRules || " + w.name, Setup: setup, Three: true,
				Actors: []actor{{Name: "traffic(a)", Run: traffic("a", true, m.trafficOp...), Allowed: w.allowed}, {Name: "GetRules", Run: m.get},
					{Name: w.name, Run: func() string { w.run(); return "" }}}})
		}
	}
	// two requests through the module's rule check and statistics at the same time (per-value caches,
	// breaker counters, gauges), admitted and blocked
	setupPass := func() {
		env.ResetAll(env.DefaultGeometry, 1700000000000)
		m.load("bo", "cp") // a has no rule, b is blocked, c passes through a permissive rule
		if m.afterLoad != nil {
			m.afterLoad()
		}
	}
	out = append(out, &scenario{Name: m.name + ": traffic(a) || traffic(a) (blocked)", Setup: setup, Three: true,
		Actors: []actor{{Name: "t1", Run: traffic("a", true, m.trafficOp...), Allowed: []string{"blocked-by:ao"}}, {Name: "t2", Run: traffic("a", false, m.trafficOp...), Allowed: []string{"blocked-by:ao"}}}})
	out = append(out, &scenario{Name: m.name + ": traffic(a) || traffic(b) (pass / blocked)", Setup: setupPass, Three: true,
		Actors: []actor{{Name: "t1", Run: traffic("a", true, m.trafficOp...)}, {Name: "t2", Run: traffic("b", false, m.trafficOp...), Allowed: []string{"blocked-by:bo"}}}})
	out = append(out, &scenario{Name: m.name + ": traffic(c) || traffic(c) (pass through a permissive rule)", Setup: setupPass, Three: true,
		Actors: []actor{{Name: "t1", Run: traffic("c", true, m.trafficOp...), Allowed: []string{"pass"}}, {Name: "t2", Run: traffic("c", false, m.trafficOp...), Allowed: []string{"pass"}}}})
	// the same, after the resource and the value have been used once: both requests take the paths for
	// existing per-value / per-window state
	setupWarm := func() {
		setupPass()
		traffic("c", false, m.trafficOp...)()
		traffic("b", false, m.trafficOp...)()
	}
	out = append(out, &scenario{Name: m.name + ": traffic(c) || traffic(c) (warm state)", Setup: setupWarm, Three: true,
		Actors: []actor{{Name: "t1", Run: traffic("c", true, m.trafficOp...), Allowed: []string{"pass"}}, {Name: "t2", Run: traffic("c", false, m.trafficOp...), Allowed: []string{"pass"}}}})
	out = append(out, &scenario{Name: m.name + ": traffic(b) || traffic(b) (warm state, blocked)", Setup: setupWarm, Three: true,
		Actors: []actor{{Name: "t1", Run: traffic("b", true, m.trafficOp...), Allowed: []string{"blocked-by:bo"}}, {Name: "t2", Run: traffic("b", false, m.trafficOp...), Allowed: []string{"blocked-by:bo"}}}})
	if m.trafficOp2 != nil {
		// two requests for different values of the same rule: both walk the rule's shared per-value containers
		setupWarm2 := func() {
			setupWarm()
			traffic("c", false, m.trafficOp2...)()
		}
		out = append(out, &scenario{Name: m.name + ": traffic(c,v) || traffic(c,w) (warm state, two values)", Setup: setupWarm2, Three: true,
			Actors: []actor{{Name: "t1", Run: traffic("c", true, m.trafficOp...), Allowed: []string{"pass"}}, {Name: "t2", Run: traffic("c", false, m.trafficOp2...), Allowed: []string{"pass"}}}})
		out = append(out, &scenario{Name: m.name + ": traffic(c,v) || traffic(c,w) (first use of both values)", Setup: setupPass, Three: true,
			Actors: []actor{{Name: "t1", Run: traffic("c", true, m.trafficOp...), Allowed: []string{"pass"}}, {Name: "t2", Run: traffic("c", false, m.trafficOp2...), Allowed: []string{"pass"}}}})
	}
	// two writers
	out = append(out, &scenario{Name: m.name + ": LoadRulesOfResource(a) || LoadRulesOfResource(b)", Setup: setup,
		Actors: []actor{{Name: "w1", Run: func() string { m.loadRes("a", "an"); return "" }}, {Name: "w2", Run: func() string { m.loadRes("b", "bn"); return "" }}}})
	out = append(out, &scenario{Name: m.name + ": LoadRules || ClearRulesOfResource(a)", Setup: setup,
		Actors: []actor{{Name: "w1", Run: func() string { m.load("an", "bo"); return "" }}, {Name: "w2", Run: func() string { m.clearRes("a"); return "" }}}})
	return out
}

func generalScenarios() []*scenario {
	plain := func() { env.ResetAll(env.DefaultGeometry, 1700000000000) }
	warm := func() {
		plain()
		if e, blk := sentinel.Entry("a"); blk == nil {
			e.Exit()
		}
	}
	node := func(f func(n *stat.ResourceNode) string) func() string {
		return func() string {
			n := stat.GetResourceNode("a")
			if n == nil {
				return "nil"
			}
			return f(n)
		}
	}
	sysSetup := func() {
		plain()
		must(system.LoadRules([]*system.Rule{{ID: "so", MetricType: system.Concurrency, TriggerCount: 0}}))
	}
	in := sentinel.WithTrafficType(base.Inbound)
	olRule := func(id string, pct float64) *outlier.Rule {
		return &outlier.Rule{Rule: &cb.Rule{Id: id, Resource: id[:1], Strategy: cb.ErrorCount, RetryTimeoutMs: 1000, MinRequestAmount: 1, StatIntervalMs: 1000, Threshold: 1}, MaxEjectionPercent: pct}
	}
	olSetup := func() {
		plain()
		_ = outlier.ClearRules()
		must(outlier.LoadRules([]*outlier.Rule{olRule("ao", 0.5)}))
	}
	return []*scenario{
		// first use of a resource from two goroutines (node creation), same and different resources
		{Name: "api: traffic(a) || traffic(a) (first use)", Setup: plain, Actors: []actor{{Name: "t1", Run: traffic("a", true), Allowed: []string{"pass"}}, {Name: "t2", Run: traffic("a", false), Allowed: []string{"pass"}}}},
		{Name: "api: traffic(a) || traffic(b) (first use)", Setup: plain, Actors: []actor{{Name: "t1", Run: traffic("a", false), Allowed: []string{"pass"}}, {Name: "t2", Run: traffic("b", true), Allowed: []string{"pass"}}}},
		{Name: "api: inbound(a) || inbound(b)", Setup: plain, Actors: []actor{{Name: "t1", Run: traffic("a", false, in), Allowed: []string{"pass"}}, {Name: "t2", Run: traffic("b", true, in), Allowed: []string{"pass"}}}},
		// statistics getters while traffic runs
		{Name: "stat: traffic(a) || node getters", Setup: warm, Actors: []actor{{Name: "t", Run: traffic("a", true), Allowed: []string{"pass"}},
			{Name: "getters", Run: node(func(n *stat.ResourceNode) string {
				return fmt.Sprint(n.GetQPS(base.MetricEventPass), n.GetSum(base.MetricEventComplete), n.AvgRT(), n.MinRT(), n.CurrentConcurrency(), n.MaxConcurrency(), n.GetPreviousQPS(base.MetricEventPass))
			})}}},
		// the clock moves past the window while a getter is computing (the window rolls between two of its reads)
		{Name: "stat: node getters || clock +3s", Setup: warm, Actors: []actor{
			{Name: "getters", Run: node(func(n *stat.ResourceNode) string {
				_ = fmt.Sprint(n.AvgRT(), n.GetQPS(base.MetricEventPass), n.MinRT(), n.GetPreviousQPS(base.MetricEventComplete))
				return ""
			})},
			{Name: "clock", Run: func() string { env.Clock.AdvanceMs(3000); return "" }}}},
		{Name: "stat: InboundNode getters || clock +3s", Setup: func() {
			plain()
			if e, blk := sentinel.Entry("a", in); blk == nil {
				e.Exit()
			}
		}, Actors: []actor{
			{Name: "getters", Run: func() string {
				n := stat.InboundNode()
				_ = fmt.Sprint(n.AvgRT(), n.GetQPS(base.MetricEventPass), n.MinRT())
				return ""
			}},
			{Name: "clock", Run: func() string { env.Clock.AdvanceMs(3000); return "" }}}},
		{Name: "stat: traffic(b) || ResourceNodeList", Setup: warm, Actors: []actor{{Name: "t", Run: traffic("b", false), Allowed: []string{"pass"}},
			{Name: "list", Run: func() string { return fmt.Sprint(len(stat.ResourceNodeList())) }}}},
		{Name: "stat: inbound(a) || InboundNode getters", Setup: warm, Actors: []actor{{Name: "t", Run: traffic("a", false, in), Allowed: []string{"pass"}},
			{Name: "getters", Run: func() string {
				n := stat.InboundNode()
				return fmt.Sprint(n.GetQPS(base.MetricEventPass), n.CurrentConcurrency())
			}}}},
		// system module
		{Name: "system: inbound(a) || LoadRules([sn])", Setup: sysSetup, Actors: []actor{{Name: "t", Run: traffic("a", false, in), Allowed: []string{"blocked-by:so", "blocked-by:sn"}},
			{Name: "w", Run: func() string {
				must(system.LoadRules([]*system.Rule{{ID: "sn", MetricType: system.Concurrency, TriggerCount: 0}}))
				return ""
			}}}},
		{Name: "system: inbound(a) || ClearRules", Setup: sysSetup, Actors: []actor{{Name: "t", Run: traffic("a", false, in), Allowed: []string{"blocked-by:so", "pass"}},
			{Name: "w", Run: func() string { _ = system.ClearRules(); return "" }}}},
		{Name: "system: GetRules || LoadRules([sn])", Setup: sysSetup, Actors: []actor{{Name: "r", Run: func() string { return fmt.Sprint(len(system.GetRules())) }, Allowed: []string{"1"}},
			{Name: "w", Run: func() string {
				must(system.LoadRules([]*system.Rule{{ID: "sn", MetricType: system.Concurrency, TriggerCount: 0}}))
				return ""
			}}}},
		{Name: "system: outbound(a) || LoadRules([sn])", Setup: sysSetup, Actors: []actor{{Name: "t", Run: traffic("a", false), Allowed: []string{"pass"}},
			{Name: "w", Run: func() string {
				must(system.LoadRules([]*system.Rule{{ID: "sn", MetricType: system.InboundQPS, TriggerCount: 0}}))
				return ""
			}}}},
		// outlier module (rule management only)
		{Name: "outlier: GetRules || LoadRules([an])", Setup: olSetup, Actors: []actor{{Name: "r", Run: func() string { return fmt.Sprint(len(outlier.GetRules())) }, Allowed: []string{"1"}},
			{Name: "w", Run: func() string { must(outlier.LoadRules([]*outlier.Rule{olRule("an", 0.3)})); return "" }}}},
		{Name: "outlier: GetRules || LoadRuleOfResource(a)", Setup: olSetup, Actors: []actor{{Name: "r", Run: func() string { return fmt.Sprint(len(outlier.GetRules())) }, Allowed: []string{"1"}},
			{Name: "w", Run: func() string { must(outlier.LoadRuleOfResource("a", olRule("an", 0.3))); return "" }}}},
		{Name: "outlier: LoadRuleOfResource(a) || LoadRuleOfResource(b)", Setup: olSetup, Actors: []actor{
			{Name: "w1", Run: func() string { must(outlier.LoadRuleOfResource("a", olRule("an", 0.3))); return "" }},
			{Name: "w2", Run: func() string { must(outlier.LoadRuleOfResource("b", olRule("bn", 0.3))); return "" }}}},
	}
}

func (s *scenario) threads() []func() {
	s.obs = make([]string, len(s.Actors))
	fns := make([]func(), len(s.Actors))
	for i := range s.Actors {
		i := i
		fns[i] = func() { s.obs[i] = s.Actors[i].Run() }
	}
	return fns
}

func (s *scenario) setup() {
	s.Setup()
	s.errs0 = racecheck.Errors()
}

func (s *scenario) check(x *vsched.Exec) (string, string) {
	if n := racecheck.Errors(); n > s.errs0 {
		txt := racecheck.NewText()
		reps := racecheck.Parse(txt)
		if len(reps) == 0 {
			return "RACE", "data race reported by the Go race detector (report text not available)"
		}
		r := reps[0]
		return "RACE", fmt.Sprintf("data race: %s  [%s]\n%s", r.Signature(), strings.Join(r.Files, " / "), r.Text)
	}
	out := strings.Join(s.obs, "|")
	for i, a := range s.Actors {
		if a.Allowed == nil {
			continue
		}
		ok := false
		for _, w := range a.Allowed {
			if s.obs[i] == w {
				ok = true
			}
		}
		if !ok {
			return out, fmt.Sprintf("%s observed %q; a request racing with a rule update must be decided entirely by the old or entirely by the new list of its own resource: allowed %v", a.Name, s.obs[i], a.Allowed)
		}
	}
	return out, ""
}

func (s *scenario) scenario() *sched.Scenario {
	return &sched.Scenario{Name: s.Name, Setup: s.setup, Threads: s.threads, Check: s.check, MaxSteps: 100000, TrustFirst: true, HorizonViolates: true}
}

func all(quick bool) []*scenario {
	var out []*scenario
	for _, m := range mods() {
		out = append(out, moduleScenarios(m, quick)...)
	}
	out = append(out, generalScenarios()...)
	return out
}

func signature(what string) string {
	if strings.HasPrefix(what, "data race: ") {
		s := strings.TrimPrefix(what, "data race: ")
		if i := strings.Index(s, "  ["); i > 0 {
			s = s[:i]
		}
		return "C15:race:" + s
	}
	if strings.Contains(what, "must be decided entirely") {
		return "C15:decision-not-old-or-new"
	}
	if strings.Contains(what, "deadlock") {
		return "C15:deadlock"
	}
	if strings.Contains(what, "does not terminate") || strings.Contains(what, "livelock") {
		return "C15:non-termination"
	}
	if strings.Contains(what, "panic") {
		return "C15:panic"
	}
	return "C15:other"
}

type replayDoc struct {
	Scenario string `json:"scenario"`
	Quick    bool   `json:"quick"`
	Choices  []int  `json:"choices"`
}

func run(c *props.Ctx) {
	if !racecheck.Enabled {
		c.R.HarnessError("C15 worker was not built with -race")
		return
	}
	bound := 2
	if !c.Quick() {
		bound = 3
	}
	scs := all(c.Quick())
	c.R.Bounds["scenarios"] = len(scs)
	c.R.Bounds["preemption_bound"] = bound
	c.R.Bounds["race_detector"] = "every explored schedule runs under the Go race detector (binary built with -race, scheduler invisible to it)"
	only := os.Getenv("VERIF_ONLY")
	for i, s := range scs {
		if !c.Mine(i) {
			continue
		}
		if only != "" && !strings.Contains(s.Name, only) {
			continue
		}
		if c.Expired() {
			c.R.Cap("time budget reached before all scenarios were explored")
			break
		}
		b := bound
		if s.Three {
			b = bound - 1
		}
		res := sched.Explore(s.scenario(), sched.Options{Bound: b, Deadline: c.Deadline, MaxExecs: 2000000})
		c.R.Evaluations += int64(res.Execs)
		c.R.Traces += int64(res.Execs)
		c.R.Transitions += res.Steps
		c.R.States += int64(res.States)
		for o := range res.Outcomes {
			c.R.Outcome(s.Name + "|" + o)
		}
		if res.HarnessErr != "" {
			c.R.HarnessError(s.Name + ": " + res.HarnessErr)
		}
		if res.CapHit != "" {
			c.R.Cap(res.CapHit)
		}
		if only != "" {
			fmt.Fprintf(os.Stderr, "%-70s execs=%d steps=%d err=%s\n", s.Name, res.Execs, res.Steps, res.HarnessErr)
		}
		if i%13 == 0 {
			c.R.Sample(map[string]interface{}{"scenario": s.Name, "schedules": res.Execs, "outcomes": len(res.Outcomes), "schedule": res.SampleSched})
		}
		for _, v := range res.Violations {
			c.R.Violate(report.Violation{Signature: signature(v.What), What: v.What, Scenario: s.Name,
				Replay: replayDoc{Scenario: s.Name, Quick: c.Quick(), Choices: v.Choices}})
		}
	}
}

func replay(c *props.Ctx, raw json.RawMessage) (bool, string) {
	var d replayDoc
	if err := json.Unmarshal(raw, &d); err != nil {
		return false, err.Error()
	}
	for _, s := range all(d.Quick) {
		if s.Name == d.Scenario {
			_, w := sched.Replay(s.scenario(), d.Choices, nil)
			return w != "", w
		}
	}
	return false, "unknown scenario"
}

func init() {
	props.Register(&props.Prop{ID: "C15", Run: run, Replay: replay})
}
