// Package props holds the registry of property checkers.
package props

import (
	"encoding/json"
	"time"

	"verifharness/report"
)

// Ctx is what a property checker gets.
type Ctx struct {
	Tier     string // quick | thorough
	Shard    int
	NShards  int
	Seed     int64
	Deadline time.Time
	R        *report.Shard
}

func (c *Ctx) Quick() bool { return c.Tier != "thorough" }

// Mine distributes independent work items over shards.
func (c *Ctx) Mine(i int) bool { return c.NShards <= 1 || i%c.NShards == c.Shard }

func (c *Ctx) Expired() bool { return !c.Deadline.IsZero() && time.Now().After(c.Deadline) }

type Prop struct {
	ID     string
	Run    func(c *Ctx)
	Replay func(c *Ctx, replay json.RawMessage) (violated bool, what string)
}

var Registry = map[string]*Prop{}

func Register(p *Prop) { Registry[p.ID] = p }
