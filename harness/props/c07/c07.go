// Package c07: system protection gates inbound traffic only, by the configured predicate.
//
// Engine B: per rule set (subsets of the five metric types and both strategies, triggers
// placed just around the values the histories produce) a BFS over all histories of inbound /
// outbound entries, exits (response time = virtual time in flight), clock advances and
// injected load / CPU readings, through the real api.Entry; every decision is compared with
// the predicate of the statement evaluated on a ref/window model of the inbound aggregate.
package c07

import (
	"encoding/json"
	"errors"
	"fmt"
	"strings"

	sentinel "github.com/alibaba/sentinel-golang/api"
	"github.com/alibaba/sentinel-golang/core/base"
	"github.com/alibaba/sentinel-golang/core/stat"
	"github.com/alibaba/sentinel-golang/core/system"
	"github.com/alibaba/sentinel-golang/core/system_metric"

	"verifharness/engine/seq"
	"verifharness/env"
	"verifharness/props"
	"verifharness/ref/window"
	"verifharness/report"
)

type RSpec struct {
	Metric  int     `json:"metric"` // system.MetricType
	Trigger float64 `json:"trigger"`
	BBR     bool    `json:"bbr"`
}

type Config struct {
	Rules []RSpec `json:"rules"`
}

func (c Config) String() string { b, _ := json.Marshal(c); return string(b) }

type opDef struct {
	kind int // 0 inbound E, 1 outbound E, 2 X(slot), 3 tick, 4 setLoad, 5 setCpu, 6 inbound E with batch count 3, 7 X(slot) after the caller traced an error
	slot int
	tick int64
	val  float64
}

func (o opDef) String() string {
	switch o.kind {
	case 0:
		return "E(inbound)"
	case 1:
		return "E(outbound)"
	case 6:
		return "E(inbound,batch 3)"
	case 2:
		return fmt.Sprintf("X(%d)", o.slot)
	case 7:
		return fmt.Sprintf("X(%d,error)", o.slot)
	case 3:
		return fmt.Sprintf("tick(%d)", o.tick)
	case 4:
		return fmt.Sprintf("load=%v", o.val)
	}
	return fmt.Sprintf("cpu=%v", o.val)
}

const maxLive = 3

var errBiz = errors.New("business error")

const T0 = int64(1700000000250)

type liveE struct {
	e       *base.SentinelEntry
	inbound bool
	start   int64
	batch   int64
}

type scen struct {
	cfg   Config
	ops   []opDef
	now   int64
	in    window.Model // inbound aggregate
	infl  int64        // inbound in flight
	load  float64
	cpu   float64
	live  [maxLive]*liveE
	rules []*system.Rule
}

func (s *scen) Name() string        { return s.cfg.String() }
func (s *scen) NumOps() int         { return len(s.ops) }
func (s *scen) OpName(i int) string { return s.ops[i].String() }

func (s *scen) Enabled(i int) bool {
	o := s.ops[i]
	switch o.kind {
	case 0, 1, 6:
		if o.kind == 6 && !s.hasQPSRule() {
			return false // batched requests only where the batch could matter: inbound QPS rules
		}
		for _, l := range s.live {
			if l == nil {
				return true
			}
		}
		return false
	case 2, 7:
		return s.live[o.slot] != nil
	}
	return true
}

func (s *scen) hasQPSRule() bool {
	for _, r := range s.cfg.Rules {
		if system.MetricType(r.Metric) == system.InboundQPS {
			return true
		}
	}
	return false
}

func (s *scen) Reset() {
	env.ResetAll(env.DefaultGeometry, T0)
	s.now = T0
	s.in = window.Model{BL: 500}
	s.infl = 0
	s.load, s.cpu = 0.5, 0.3
	system_metric.SetSystemLoad(s.load)
	system_metric.SetSystemCpuUsage(s.cpu)
	for i := range s.live {
		s.live[i] = nil
	}
	s.rules = s.rules[:0]
	for i, r := range s.cfg.Rules {
		st := system.NoAdaptive
		if r.BBR {
			st = system.BBR
		}
		s.rules = append(s.rules, &system.Rule{ID: fmt.Sprint(i), MetricType: system.MetricType(r.Metric), TriggerCount: r.Trigger, Strategy: st})
	}
	if _, err := system.LoadRules(s.rules); err != nil {
		panic(err)
	}
	// every rule of the set is valid (IsValidSystemRule): how many of them the module reports is
	// C13's subject; here the behaviour is judged against the rules that were loaded
	for _, r := range s.rules {
		if err := system.IsValidSystemRule(r); err != nil {
			panic("harness: invalid system rule in a configuration: " + err.Error())
		}
	}
}

// violated evaluates the statement's predicate on the reference aggregate.
func (s *scen) violated() (bool, []int) {
	var which []int
	qps := float64(s.in.Sum(s.now, 1000, window.EvPass)) // per 1 s window
	comp := s.in.Sum(s.now, 1000, window.EvComplete)
	avg := float64(0)
	if comp > 0 {
		avg = float64(s.in.Sum(s.now, 1000, window.EvRt) / comp) // integer average (documented convention)
	}
	// estimated capacity = peak completion rate x minimum response time, at least one request
	peakPerSec := float64(s.in.MaxOfSingleBucket(s.now, 1000, window.EvComplete)) * 2
	minRt := float64(s.in.MinRt(s.now, 1000))
	if minRt < 1 {
		minRt = 1
	}
	capacity := peakPerSec * minRt / 1000.0
	overCapacity := s.infl > 1 && float64(s.infl) > capacity
	for i, r := range s.cfg.Rules {
		v := false
		switch system.MetricType(r.Metric) {
		case system.InboundQPS:
			v = qps >= r.Trigger
		case system.Concurrency:
			v = float64(s.infl) >= r.Trigger
		case system.AvgRT:
			v = avg >= r.Trigger
		case system.Load:
			v = s.load > r.Trigger && (!r.BBR || overCapacity)
		case system.CpuUsage:
			v = s.cpu > r.Trigger && (!r.BBR || overCapacity)
		}
		if v {
			which = append(which, i)
		}
	}
	return len(which) > 0, which
}

func (s *scen) Apply(i int) (string, string) {
	o := s.ops[i]
	switch o.kind {
	case 3:
		s.now += o.tick
		env.Clock.SetMs(s.now)
		return "", ""
	case 4:
		s.load = o.val
		system_metric.SetSystemLoad(o.val)
		return "", ""
	case 5:
		s.cpu = o.val
		system_metric.SetSystemCpuUsage(o.val)
		return "", ""
	case 2, 7:
		l := s.live[o.slot]
		s.live[o.slot] = nil
		if o.kind == 7 {
			// a request that ends with a business error is a completed request like any other
			sentinel.TraceError(l.e, errBiz)
		}
		l.e.Exit()
		if l.inbound {
			s.infl--
			s.in.Add(s.now, window.EvComplete, l.batch)
			s.in.Add(s.now, window.EvRt, s.now-l.start)
		}
		return "x", s.gauge(o)
	}
	inbound := o.kind == 0 || o.kind == 6
	batch := int64(1)
	if o.kind == 6 {
		batch = 3 // the decision does not depend on the request's own batch count
	}
	wantBlock, which := false, []int(nil)
	if inbound {
		wantBlock, which = s.violated()
	}
	res := "out"
	opts := []sentinel.EntryOption{}
	if inbound {
		res = "in"
		opts = append(opts, sentinel.WithTrafficType(base.Inbound))
	}
	if batch != 1 {
		opts = append(opts, sentinel.WithBatchCount(uint32(batch)))
	}
	e, blk := sentinel.Entry(res, opts...)
	obs := o.String() + "=P"
	if blk != nil {
		obs = o.String() + "=B"
		if blk.BlockType() != base.BlockTypeSystemFlow {
			return obs, fmt.Sprintf("t=+%d %v blocked with type %v", s.now-T0, o, blk.BlockType())
		}
		if !inbound {
			return obs, fmt.Sprintf("t=+%d outbound request rejected by the system rule %v", s.now-T0, blk.TriggeredRule())
		}
		if !wantBlock {
			return obs, fmt.Sprintf("t=+%d inbound request rejected (rule %v, value %v) although no loaded rule is violated: %s", s.now-T0, blk.TriggeredRule(), blk.TriggeredValue(), s.describe())
		}
		// the reported rule must be one of the violated ones (which one depends on map order)
		if r, ok := blk.TriggeredRule().(*system.Rule); ok {
			found := false
			for _, w := range which {
				if s.rules[w] == r {
					found = true
				}
			}
			if !found {
				return obs, fmt.Sprintf("t=+%d inbound request rejected by rule %v which is not violated: %s", s.now-T0, r, s.describe())
			}
		}
		return obs, s.gauge(o)
	}
	if wantBlock {
		e.Exit()
		return obs, fmt.Sprintf("t=+%d inbound request admitted although rule(s) %v are violated: %s", s.now-T0, which, s.describe())
	}
	for k := range s.live {
		if s.live[k] == nil {
			s.live[k] = &liveE{e, inbound, s.now, batch}
			break
		}
	}
	if inbound {
		s.infl++
		s.in.Add(s.now, window.EvPass, batch)
	}
	return obs, s.gauge(o)
}

func (s *scen) gauge(o opDef) string {
	if g := int64(stat.InboundNode().CurrentConcurrency()); g != s.infl {
		return fmt.Sprintf("after %v: inbound in-flight gauge %d, reference %d", o, g, s.infl)
	}
	return ""
}

func (s *scen) describe() string {
	comp := s.in.Sum(s.now, 1000, window.EvComplete)
	return fmt.Sprintf("qps=%d inflight=%d rtSum=%d complete=%d peakBucketComplete=%d minRt=%d load=%v cpu=%v",
		s.in.Sum(s.now, 1000, window.EvPass), s.infl, s.in.Sum(s.now, 1000, window.EvRt), comp,
		s.in.MaxOfSingleBucket(s.now, 1000, window.EvComplete), s.in.MinRt(s.now, 1000), s.load, s.cpu)
}

func (s *scen) Key() string {
	var b strings.Builder
	fmt.Fprintf(&b, "ph%d|l%v|c%v|", s.now%500, s.load, s.cpu)
	cur := s.now - s.now%500
	for _, e := range s.in.Recent(cur - 1000) {
		fmt.Fprintf(&b, "%d:%d:%d,", s.in.Start(e.T)-cur, e.Ev, e.Amt)
	}
	for _, l := range s.live {
		if l == nil {
			b.WriteString("_")
		} else {
			age := s.now - l.start
			if age > 20 {
				age = 21
			}
			fmt.Fprintf(&b, "L%v%d/%d", l.inbound, age, l.batch)
		}
	}
	bk, _ := stat.InboundNode().VerifArr().VerifDump()
	for _, x := range bk {
		if int64(x.Start) >= cur-1500 {
			fmt.Fprintf(&b, "|%d:%v:%d", int64(x.Start)-cur, x.Counter, x.MinRt)
		}
	}
	return b.String()
}

func mkOps(cfg Config) []opDef {
	ops := []opDef{{kind: 0}, {kind: 1}, {kind: 6}}
	for k := 0; k < maxLive; k++ {
		ops = append(ops, opDef{kind: 2, slot: k})
	}
	ops = append(ops, opDef{kind: 7, slot: 0})
	for _, d := range []int64{2, 4, 500, 1000} {
		ops = append(ops, opDef{kind: 3, tick: d})
	}
	for _, r := range cfg.Rules {
		if system.MetricType(r.Metric) == system.AvgRT && r.Trigger >= 1000 {
			// response times beyond the default statistic maximum (60 s) count in full
			ops = append(ops, opDef{kind: 3, tick: 90000})
			break
		}
	}
	for _, v := range []float64{1.0, 1.5} {
		ops = append(ops, opDef{kind: 4, val: v})
	}
	for _, v := range []float64{0.5, 0.8} {
		ops = append(ops, opDef{kind: 5, val: v})
	}
	return ops
}

func configs(quick bool) []Config {
	L, RT, C, Q, CPU := int(system.Load), int(system.AvgRT), int(system.Concurrency), int(system.InboundQPS), int(system.CpuUsage)
	single := []RSpec{
		{Q, 1, false}, {Q, 2, false}, {C, 1, false}, {C, 2, false}, {RT, 3, false}, {RT, 5, false},
		{L, 1.0, false}, {L, 1.0, true}, {CPU, 0.5, false}, {CPU, 0.5, true}, {Q, 0, false}, {C, 0, false}, {RT, 0, false},
		{RT, 70000, false},
	}
	var out []Config
	out = append(out, Config{nil})
	for _, r := range single {
		out = append(out, Config{[]RSpec{r}})
	}
	pairs := [][2]int{{0, 3}, {1, 2}, {3, 4}, {5, 7}, {7, 9}, {6, 9}, {1, 5}, {3, 8}, {2, 7}}
	if quick {
		pairs = pairs[:5]
	}
	for _, p := range pairs {
		out = append(out, Config{[]RSpec{single[p[0]], single[p[1]]}})
	}
	out = append(out, Config{[]RSpec{single[1], single[3], single[7]}}, Config{[]RSpec{single[5], single[9], single[2]}})
	// several rules of ONE metric type: every one of them is in force, whatever their order, triggers
	// and strategies
	same := [][]RSpec{
		{{Q, 1, false}, {Q, 2, false}}, {{Q, 2, false}, {Q, 1, false}}, {{C, 2, false}, {C, 1, false}}, {{RT, 5, false}, {RT, 3, false}},
		{{L, 1.0, true}, {L, 1.2, false}}, {{L, 1.2, false}, {L, 1.0, true}}, {{CPU, 0.5, true}, {CPU, 0.6, false}},
	}
	if quick {
		same = [][]RSpec{same[1], same[2], same[4], same[5], same[6]}
	}
	for _, rs := range same {
		out = append(out, Config{rs})
	}
	return out
}

func signature(what string) string {
	switch {
	case strings.Contains(what, "outbound request rejected"):
		return "C07:outbound-blocked"
	case strings.Contains(what, "although no loaded rule is violated"):
		return "C07:spurious-rejection"
	case strings.Contains(what, "admitted although"):
		return "C07:violated-rule-not-enforced"
	case strings.Contains(what, "which is not violated"):
		return "C07:wrong-rule-reported"
	case strings.Contains(what, "gauge"):
		return "C07:inbound-gauge"
	}
	return "C07:other"
}

type replayDoc struct {
	Cfg  Config   `json:"cfg"`
	Path []int    `json:"path"`
	Ops  []string `json:"ops"`
}

func run(c *props.Ctx) {
	depth := 6
	if !c.Quick() {
		depth = 8
	}
	c.R.Bounds["depth"] = depth
	c.R.Bounds["depth_for_rule_sets_with_BBR_quick"] = depth + 1
	cfgs := configs(c.Quick())
	c.R.Bounds["rule_sets"] = len(cfgs)
	for i, cfg := range cfgs {
		if !c.Mine(i) {
			continue
		}
		if c.Expired() {
			c.R.Cap("time budget reached before all rule sets were explored")
			break
		}
		s := &scen{cfg: cfg, ops: mkOps(cfg)}
		d := depth
		for _, r := range cfg.Rules {
			if r.BBR && c.Quick() {
				// the BBR estimate needs a completed slow request plus two in flight: one level deeper
				d = depth + 1
			}
		}
		res := seq.Explore(s, seq.Options{Depth: d, Deadline: c.Deadline, Classify: signature, MaxStates: 3000000})
		c.R.States += int64(res.States)
		c.R.Transitions += res.Transitions
		c.R.Evaluations += res.Transitions
		c.R.Traces += res.Transitions
		for o := range res.Obs {
			c.R.Outcome(fmt.Sprintf("%d|%s", i, o))
		}
		if res.CapHit != "" && res.CapHit != "violation limit" {
			c.R.Cap(res.CapHit)
		}
		if i%7 == 0 {
			c.R.Sample(map[string]interface{}{"rules": cfg, "states": res.States, "transitions": res.Transitions, "depth": res.Depth, "path": res.SamplePath})
		}
		for _, v := range res.Violations {
			c.R.Violate(report.Violation{Signature: signature(v.What), What: v.What, Scenario: cfg.String() + " " + strings.Join(v.Ops, " "),
				Replay: replayDoc{Cfg: cfg, Path: v.Path, Ops: v.Ops}})
		}
	}
	system_metric.SetSystemLoad(-1)
	system_metric.SetSystemCpuUsage(-1)
}

func replay(c *props.Ctx, raw json.RawMessage) (bool, string) {
	var d replayDoc
	if err := json.Unmarshal(raw, &d); err != nil {
		return false, err.Error()
	}
	s := &scen{cfg: d.Cfg, ops: mkOps(d.Cfg)}
	w := seq.Replay(s, d.Path)
	return w != "", w
}

func init() {
	props.Register(&props.Prop{ID: "C07", Run: run, Replay: replay})
}
