// Package c10: throttling flow rules pace admitted requests and bound queueing.
//
// Engine B (sequential): per configuration (threshold x interval x max queueing time x sleep
// answer) all arrival histories in virtual nanosecond time to a depth bound through the real
// api.Entry; pass time = arrival + requested sleep. Engine A (concurrent, conc.go): 2-3
// callers on ThrottlingChecker.DoCheck with clock ticks as thread steps, all interleavings.
package c10

import (
	"encoding/json"
	"fmt"
	"math"
	"strings"
	"time"

	sentinel "github.com/alibaba/sentinel-golang/api"
	"github.com/alibaba/sentinel-golang/core/base"
	"github.com/alibaba/sentinel-golang/core/flow"
	"github.com/alibaba/sentinel-golang/core/system_metric"

	"verifharness/engine/seq"
	"verifharness/env"
	"verifharness/props"
	"verifharness/report"
)

type Config struct {
	T          float64 `json:"t"`
	IntervalMs uint32  `json:"interval_ms"`
	MaxQMs     uint32  `json:"max_queue_ms"`
	SleepAdv   bool    `json:"sleep_advances"`
	// MemAdaptive: the threshold comes from a memory-adaptive calculator (memory reading fixed below the low
	// water mark, so the effective threshold is T); pacing is done by the same throttling checker
	MemAdaptive bool `json:"memory_adaptive,omitempty"`
	// T2 > 0: a second throttling rule of the resource (same interval and queueing limit, threshold T2) behind the
	// first one: an admitted request honours the spacing of BOTH rules
	T2 float64 `json:"second_rule_threshold,omitempty"`
}

func (c Config) String() string { b, _ := json.Marshal(c); return string(b) }

func (c Config) intervalNs() int64 {
	if c.IntervalMs == 0 {
		return 1e9
	}
	return int64(c.IntervalMs) * 1e6
}

// spacing in whole nanoseconds (rounded up) required before a request of batch b
func (c Config) spacing(b uint32) int64 {
	return int64(math.Ceil(float64(b) / c.T * float64(c.intervalNs())))
}

// exact spacing test: delta >= b*I/T  <=>  delta*T >= b*I (all operands small enough to be exact)
func (c Config) spacedExactly(delta int64, b uint32) bool {
	return float64(delta)*c.T >= float64(b)*float64(c.intervalNs())
}

type opDef struct {
	req    bool
	batch  uint32
	tick   int64
	reload bool // reload the rule with only its maximum queueing time changed (toggles between two values)
}

func (o opDef) String() string {
	if o.reload {
		return "reload(other-queueing-limit)"
	}
	if o.req {
		return fmt.Sprintf("req(%d)", o.batch)
	}
	return fmt.Sprintf("tick(%dns)", o.tick)
}

const T0 = int64(1700000000) * 1e9

type scen struct {
	cfg      Config
	ops      []opDef
	now      int64
	lastPass int64 // latest pass time handed out so far (reference), 0 = none
	havePass bool
	sleeps   []time.Duration
	rule     *flow.Rule
	curMQ    uint32 // maximum queueing time of the rule in force
	// fresh: the rule was just replaced by a changed one. Whether the queue of the old rule carries over is
	// not the property's business, so the first request afterwards is judged against both readings
	fresh bool
}

// altMQ is the other queueing limit the reload operation switches to.
func (c Config) altMQ() uint32 {
	if c.MaxQMs == 0 {
		return 1000
	}
	return 0
}

func (s *scen) Name() string        { return s.cfg.String() }
func (s *scen) NumOps() int         { return len(s.ops) }
func (s *scen) OpName(i int) string { return s.ops[i].String() }
func (s *scen) Enabled(i int) bool  { return true }

func (s *scen) Reset() {
	env.ResetAll(env.DefaultGeometry, 0)
	s.now = T0
	env.Clock.SetNs(s.now)
	env.Clock.SleepAdvances = s.cfg.SleepAdv
	s.sleeps = s.sleeps[:0]
	env.Clock.OnSleep = func(d time.Duration) { s.sleeps = append(s.sleeps, d) }
	s.lastPass, s.havePass = 0, false
	s.curMQ, s.fresh = s.cfg.MaxQMs, false
	s.rule = &flow.Rule{Resource: "a", TokenCalculateStrategy: flow.Direct, ControlBehavior: flow.Throttling, Threshold: s.cfg.T,
		MaxQueueingTimeMs: s.cfg.MaxQMs, StatIntervalInMs: s.cfg.IntervalMs}
	if s.cfg.MemAdaptive {
		system_metric.SetSystemMemoryUsage(0)
		s.rule.TokenCalculateStrategy, s.rule.Threshold = flow.MemoryAdaptive, 0
		s.rule.LowMemUsageThreshold, s.rule.HighMemUsageThreshold = int64(s.cfg.T), 1
		s.rule.MemLowWaterMarkBytes, s.rule.MemHighWaterMarkBytes = 1024, 2048
	}
	rules := []*flow.Rule{s.rule}
	if s.cfg.T2 > 0 {
		r2 := *s.rule
		r2.Threshold = s.cfg.T2
		rules = append(rules, &r2)
	}
	if _, err := flow.LoadRules(rules); err != nil {
		panic(err)
	}
	if len(flow.GetRules()) != len(rules) {
		panic("harness: throttling rule not accepted")
	}
}

func (s *scen) Apply(i int) (string, string) {
	o := s.ops[i]
	if !o.req && !o.reload {
		s.now += o.tick
		env.Clock.SetNs(s.now)
		return "", ""
	}
	if o.reload {
		if s.curMQ == s.cfg.MaxQMs {
			s.curMQ = s.cfg.altMQ()
		} else {
			s.curMQ = s.cfg.MaxQMs
		}
		r := *s.rule
		r.MaxQueueingTimeMs = s.curMQ
		rs := []*flow.Rule{&r}
		if s.cfg.T2 > 0 {
			r2 := r
			r2.Threshold = s.cfg.T2
			rs = append(rs, &r2)
		}
		if _, err := flow.LoadRules(rs); err != nil {
			return "", "reload failed: " + err.Error()
		}
		s.fresh = true
		return "", ""
	}
	arrival := s.now
	maxQ := int64(s.curMQ) * 1e6
	nSleeps := len(s.sleeps)
	e, blk := sentinel.Entry("a", batchOpt(o.batch)...)
	// the clock may have been advanced by the requested sleep
	s.now = env.Clock.Ns()
	var wait int64
	for _, d := range s.sleeps[nSleeps:] {
		wait += int64(d)
	}
	maxSleeps := 1
	if s.cfg.T2 > 0 {
		maxSleeps = 2
	}
	if len(s.sleeps)-nSleeps > maxSleeps {
		return "", fmt.Sprintf("%v asked to sleep %d times", o, len(s.sleeps)-nSleeps)
	}
	if blk != nil {
		if blk.BlockType() != base.BlockTypeFlow {
			return "B", fmt.Sprintf("%v blocked with type %v", o, blk.BlockType())
		}
		if wait != 0 && s.cfg.T2 == 0 {
			return "B", fmt.Sprintf("%v rejected after being asked to sleep %dns", o, wait)
		}
		// a rejection needs a reason: batch above threshold, zero threshold, or the spacing
		// (rounded up to whole ns) cannot be honoured within the queueing limit
		just := float64(o.batch) > s.cfg.T || (s.cfg.T2 > 0 && float64(o.batch) > s.cfg.T2)
		if !just && s.havePass {
			earliest := s.lastPass + s.cfg.spacing(o.batch)
			if earliest-arrival > maxQ {
				just = true
			}
			if s.cfg.T2 > 0 {
				c2 := s.cfg
				c2.T = s.cfg.T2
				if s.lastPass+c2.spacing(o.batch)-arrival > maxQ {
					just = true
				}
			}
		}
		if !just {
			return "B", fmt.Sprintf("t=+%dns %v rejected although it could pass at +%dns within the queueing limit %dns (last pass +%dns)",
				arrival-T0, o, maxI(arrival, s.lastPass+s.cfg.spacing(o.batch))-T0, maxQ, s.lastPass-T0)
		}
		return "B", ""
	}
	e.Exit()
	if float64(o.batch) > s.cfg.T || (s.cfg.T2 > 0 && float64(o.batch) > s.cfg.T2) {
		return "P", fmt.Sprintf("%v admitted although its batch exceeds the threshold %v", o, s.cfg.T)
	}
	if wait < 0 {
		return "P", fmt.Sprintf("%v asked to sleep a negative time", o)
	}
	if wait > maxQ {
		return "P", fmt.Sprintf("t=+%dns %v asked to wait %dns, more than the maximum queueing time %dns", arrival-T0, o, wait, maxQ)
	}
	if o.batch == 0 {
		// a request for no tokens takes no place in the queue: nothing to space, nothing handed out
		return fmt.Sprintf("P0+%d", wait), ""
	}
	pass := arrival + wait
	if s.havePass && !s.fresh && s.cfg.T2 > 0 {
		c2 := s.cfg
		c2.T = s.cfg.T2
		if !c2.spacedExactly(pass-s.lastPass, o.batch) {
			return "P", fmt.Sprintf("t=+%dns %v passes at +%dns, only %dns after the previous pass time +%dns (the second rule requires %v*%dns/%v)",
				arrival-T0, o, pass-T0, pass-s.lastPass, s.lastPass-T0, o.batch, s.cfg.intervalNs(), s.cfg.T2)
		}
	}
	if s.havePass && !s.fresh {
		if !s.cfg.spacedExactly(pass-s.lastPass, o.batch) {
			return "P", fmt.Sprintf("t=+%dns %v passes at +%dns, only %dns after the previous pass time +%dns (required %v*%dns/%v)",
				arrival-T0, o, pass-T0, pass-s.lastPass, s.lastPass-T0, o.batch, s.cfg.intervalNs(), s.cfg.T)
		}
	}
	s.lastPass, s.havePass, s.fresh = pass, true, false
	return fmt.Sprintf("P+%d", wait), ""
}

func maxI(a, b int64) int64 {
	if a > b {
		return a
	}
	return b
}

func (s *scen) checker() *flow.ThrottlingChecker {
	cs := flow.VerifControllers("a")
	if len(cs) != 1 {
		return nil
	}
	tc, _ := cs[0].TC.FlowChecker().(*flow.ThrottlingChecker)
	return tc
}

func (s *scen) Key() string {
	x2 := int64(0)
	if s.cfg.T > 0 {
		x2 = s.cfg.spacing(2)
	}
	rel := func(v int64) int64 {
		d := v - s.now
		if d < -x2-1 {
			d = -x2 - 1 // far enough in the past: every request finds the rule idle
		}
		return d
	}
	impl := int64(0)
	if c := s.checker(); c != nil {
		impl = c.VerifLastPassed()
	}
	return fmt.Sprintf("%v|%d|%d|%d|%v", s.havePass, rel(s.lastPass), rel(impl), s.curMQ, s.fresh)
}

func mkOps(cfg Config) []opDef {
	ops := []opDef{{req: true, batch: 1}, {req: true, batch: 2}, {reload: true}, {req: true, batch: 0}}
	x := int64(1e6)
	if cfg.T > 0 {
		x = cfg.spacing(1)
	}
	seen := map[int64]bool{}
	for _, d := range []int64{1, x / 2, x - 1, x, x + 1, 3 * x, int64(cfg.MaxQMs) * 1e6, int64(cfg.MaxQMs)*1e6 + 1} {
		if d > 0 && !seen[d] {
			seen[d] = true
			ops = append(ops, opDef{tick: d})
		}
	}
	return ops
}

func configs() []Config {
	var out []Config
	for _, t := range []float64{0, 0.5, 1, 1.5, 2, 2.5, 3, 1000} { // fractional thresholds: the spacing is batch/threshold, not batch/floor(threshold)
		// 5000 ms: above 2^32 ns, where a millisecond-to-nanosecond conversion done in 32 bits wraps
		for _, iv := range []uint32{1000, 10, 0, 5000} {
			for _, mq := range []uint32{0, 1, 500, 1000, 5000} {
				for _, sa := range []bool{false, true} {
					out = append(out, Config{T: t, IntervalMs: iv, MaxQMs: mq, SleepAdv: sa})
				}
			}
		}
	}
	// two throttling rules on the resource (sleeping advances the clock, as it does in production)
	for _, p := range [][2]float64{{2, 1000}, {1000, 2}, {2, 3}} {
		for _, mq := range []uint32{1000, 500} {
			out = append(out, Config{T: p[0], T2: p[1], IntervalMs: 1000, MaxQMs: mq, SleepAdv: true})
		}
	}
	for _, t := range []float64{2, 3} {
		for _, iv := range []uint32{1000, 10, 0, 5000} {
			for _, mq := range []uint32{0, 500, 1000} {
				out = append(out, Config{T: t, IntervalMs: iv, MaxQMs: mq, SleepAdv: iv == 10, MemAdaptive: true})
			}
		}
	}
	return out
}

func signature(what string) string {
	switch {
	case strings.Contains(what, "after the previous pass time"):
		return "C10:spacing-violated"
	case strings.Contains(what, "more than the maximum queueing"):
		return "C10:wait-exceeds-limit"
	case strings.Contains(what, "rejected although"):
		return "C10:unjustified-rejection"
	case strings.Contains(what, "admitted although"):
		return "C10:batch-above-threshold-admitted"
	}
	return "C10:other"
}

type replayDoc struct {
	Kind string   `json:"kind"`
	Cfg  Config   `json:"cfg"`
	Path []int    `json:"path"`
	Ops  []string `json:"ops"`
}

func run(c *props.Ctx) {
	depth := 7
	if !c.Quick() {
		depth = 10
	}
	c.R.Bounds["depth"] = depth
	cfgs := configs()
	c.R.Bounds["configs"] = len(cfgs)
	for i, cfg := range cfgs {
		if !c.Mine(i) {
			continue
		}
		s := &scen{cfg: cfg, ops: mkOps(cfg)}
		res := seq.Explore(s, seq.Options{Depth: depth, Deadline: c.Deadline, Classify: signature, MaxStates: 2000000})
		c.R.States += int64(res.States)
		c.R.Transitions += res.Transitions
		c.R.Evaluations += res.Transitions
		c.R.Traces += res.Transitions
		for o := range res.Obs {
			c.R.Outcome(fmt.Sprintf("%d|%s", i, o))
		}
		if res.CapHit != "" && res.CapHit != "violation limit" {
			c.R.Cap(res.CapHit)
		}
		if i%31 == 0 {
			c.R.Sample(map[string]interface{}{"config": cfg, "states": res.States, "transitions": res.Transitions, "depth": res.Depth, "path": res.SamplePath})
		}
		for _, v := range res.Violations {
			c.R.Violate(report.Violation{Signature: signature(v.What), What: v.What, Scenario: cfg.String() + " " + strings.Join(v.Ops, " "),
				Replay: replayDoc{Kind: "seq", Cfg: cfg, Path: v.Path, Ops: v.Ops}})
		}
	}
	runConc(c, len(cfgs))
}

func replay(c *props.Ctx, raw json.RawMessage) (bool, string) {
	var d replayDoc
	if err := json.Unmarshal(raw, &d); err != nil {
		return false, err.Error()
	}
	if d.Kind == "conc" {
		return replayConc(raw)
	}
	s := &scen{cfg: d.Cfg, ops: mkOps(d.Cfg)}
	w := seq.Replay(s, d.Path)
	return w != "", w
}

func init() {
	props.Register(&props.Prop{ID: "C10", Run: run, Replay: replay})
}

// batchOpt passes the batch count the way callers do: a request of one token names no batch count at all, so
// the default of the (pooled) entry options is part of what is checked.
func batchOpt(b uint32) []sentinel.EntryOption {
	if b == 1 {
		return nil
	}
	return []sentinel.EntryOption{sentinel.WithBatchCount(b)}
}
