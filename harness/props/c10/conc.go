package c10

import (
	"encoding/json"
	"fmt"
	"os"
	"sort"
	"strings"
	"unsafe"

	"github.com/alibaba/sentinel-golang/core/base"
	"github.com/alibaba/sentinel-golang/core/flow"
	"github.com/alibaba/sentinel-golang/verifshim/vsched"

	"verifharness/engine/sched"
	"verifharness/env"
	"verifharness/props"
	"verifharness/report"
)

// step of a thread program: a DoCheck call with a batch, or a clock tick
type cstep struct {
	Batch uint32 `json:"b,omitempty"`
	Tick  int64  `json:"tick_ns,omitempty"`
}

type concScen struct {
	Cfg   Config    `json:"cfg"`
	Warm  bool      `json:"warm"` // one sequential call at T0 first, so the rule is not idle
	Progs [][]cstep `json:"progs"`

	chk   *flow.ThrottlingChecker
	calls []*ccall
	cur   []*ccall // per thread: call in progress
	seq   int
	now   int64
}

type ccall struct {
	thread, idx  int
	batch        uint32
	arrival      int64
	haveArr      bool
	wait         int64
	status       int // 0 not returned, 1 passed, 2 rejected
	call, ret    int
	startedAtRet uint32 // bit j: call j had started when this call returned
}

func (s *concScen) name() string { b, _ := json.Marshal(s); return string(b) }

func (s *concScen) setup() {
	env.ResetAll(env.DefaultGeometry, 0)
	s.now = T0
	env.Clock.SetNs(s.now)
	rule := &flow.Rule{Resource: "a", TokenCalculateStrategy: flow.Direct, ControlBehavior: flow.Throttling, Threshold: s.Cfg.T,
		MaxQueueingTimeMs: s.Cfg.MaxQMs, StatIntervalInMs: s.Cfg.IntervalMs}
	if _, err := flow.LoadRules([]*flow.Rule{rule}); err != nil {
		panic(err)
	}
	cs := flow.VerifControllers("a")
	if len(cs) != 1 {
		panic("harness: throttling rule not accepted")
	}
	s.chk = cs[0].TC.FlowChecker().(*flow.ThrottlingChecker)
	s.calls = s.calls[:0]
	s.cur = make([]*ccall, len(s.Progs))
	s.seq = 0
	if s.Warm {
		if r := s.chk.DoCheck(nil, 1, s.Cfg.T); r != nil {
			panic("harness: warm-up call did not pass")
		}
	}
	for ti, p := range s.Progs {
		for j, st := range p {
			if st.Batch > 0 {
				s.calls = append(s.calls, &ccall{thread: ti, idx: j, batch: st.Batch})
			}
		}
	}
	env.Clock.OnNano = func(ns int64) {
		t := vsched.Cur()
		if t >= 0 && t < len(s.cur) && s.cur[t] != nil && !s.cur[t].haveArr {
			s.cur[t].arrival, s.cur[t].haveArr = ns, true
		}
	}
	vsched.ResetRegions()
	vsched.RegisterRegion(s.chk.VerifLastPassedAddr(), 8)
	vsched.AfterOp = nil
	if os.Getenv("VERIF_DEBUG") != "" {
		vsched.AfterOp = func(kind uint8, addr unsafe.Pointer, old, new uint64, ok bool) {
			fmt.Printf("  T%d %s old=%+d new=%+d ok=%v clock=%+d\n", vsched.Cur(), vsched.KindNames[kind], int64(old)-T0, int64(new)-T0, ok, s.now-T0)
		}
	}
}

func (s *concScen) find(ti, j int) *ccall {
	for _, c := range s.calls {
		if c.thread == ti && c.idx == j {
			return c
		}
	}
	return nil
}

func (s *concScen) threads() []func() {
	fns := make([]func(), len(s.Progs))
	for ti := range s.Progs {
		ti := ti
		fns[ti] = func() {
			for j, st := range s.Progs[ti] {
				if st.Tick > 0 {
					vsched.Point(vsched.KUser, nil)
					s.now += st.Tick
					env.Clock.SetNs(s.now)
					continue
				}
				c := s.find(ti, j)
				vsched.Point(vsched.KUser, nil)
				s.seq++
				c.call = s.seq
				s.cur[ti] = c
				r := s.chk.DoCheck(nil, st.Batch, s.Cfg.T)
				vsched.Point(vsched.KUser, nil)
				s.seq++
				c.ret = s.seq
				for k, o := range s.calls {
					if o.call > 0 {
						c.startedAtRet |= 1 << uint(k)
					}
				}
				switch {
				case r == nil:
					c.status = 1
				case r.Status() == base.ResultStatusShouldWait:
					c.status, c.wait = 1, int64(r.NanosToWait())
				default:
					c.status = 2
				}
				s.cur[ti] = nil
			}
		}
	}
	return fns
}

func (s *concScen) check(x *vsched.Exec) (string, string) {
	maxQ := int64(s.Cfg.MaxQMs) * 1e6
	type adm struct {
		pass  int64
		batch uint32
		who   string
	}
	var ad []adm
	if s.Warm {
		ad = append(ad, adm{T0, 1, "warm-up"})
	}
	out := ""
	for _, c := range s.calls {
		if c.status == 0 {
			return "UNFINISHED", "a call did not return"
		}
		if c.status == 1 {
			out += fmt.Sprintf("P%d@%d;", c.wait, c.arrival-T0)
			if c.wait < 0 || c.wait > maxQ {
				return out, fmt.Sprintf("thread %d call %d asked to wait %dns (maximum queueing time %dns)", c.thread, c.idx, c.wait, maxQ)
			}
			ad = append(ad, adm{c.arrival + c.wait, c.batch, fmt.Sprintf("thread %d call %d", c.thread, c.idx)})
		} else {
			out += "B;"
		}
	}
	sort.SliceStable(ad, func(i, j int) bool { return ad[i].pass < ad[j].pass })
	for i := 1; i < len(ad); i++ {
		if !s.Cfg.spacedExactly(ad[i].pass-ad[i-1].pass, ad[i].batch) {
			return out, fmt.Sprintf("%s passes at +%dns and %s at +%dns: %dns apart, required %d*%dns/%v",
				ad[i-1].who, ad[i-1].pass-T0, ad[i].who, ad[i].pass-T0, ad[i].pass-ad[i-1].pass, ad[i].batch, s.Cfg.intervalNs(), s.Cfg.T)
		}
	}
	// rejections need a justification under some linearisation
	for k, c := range s.calls {
		if c.status != 2 {
			continue
		}
		just := s.Cfg.T <= 0 || float64(c.batch) > s.Cfg.T
		x := s.Cfg.spacing(c.batch)
		if s.Warm && T0+x-c.arrival > maxQ {
			just = true
		}
		for j, o := range s.calls {
			if j == k || o.status != 1 || c.startedAtRet&(1<<uint(j)) == 0 {
				continue
			}
			if o.arrival+o.wait+x-c.arrival > maxQ {
				just = true
			}
		}
		if !just {
			return out, fmt.Sprintf("thread %d call %d (arrival +%dns) rejected although no admitted request it could be ordered after pushes it beyond the queueing limit", c.thread, c.idx, c.arrival-T0)
		}
	}
	return out, ""
}

func (s *concScen) stateKey() uint64 {
	h := uint64(s.chk.VerifLastPassed())
	h = vsched.Mix(h, uint64(s.now))
	for _, c := range s.calls {
		h = vsched.Mix(h, uint64(c.status)<<2|uint64(btoi(c.haveArr))<<1|uint64(btoi(c.call > 0)))
		h = vsched.Mix(h, uint64(c.arrival))
		h = vsched.Mix(h, uint64(c.wait))
		h = vsched.Mix(h, uint64(c.startedAtRet))
	}
	return h
}

func btoi(b bool) int {
	if b {
		return 1
	}
	return 0
}

func (s *concScen) scenario() *sched.Scenario {
	return &sched.Scenario{Name: s.name(), Setup: s.setup, Threads: s.threads, Check: s.check, StateKey: s.stateKey, POR: true, MaxSteps: 20000}
}

func concScenarios(quick bool) []*concScen {
	var out []*concScen
	c1 := cstep{Batch: 1}
	c2 := cstep{Batch: 2}
	add := func(cfg Config, warm bool, progs ...[]cstep) {
		out = append(out, &concScen{Cfg: cfg, Warm: warm, Progs: progs})
	}
	// 10 per second, queueing limit 150 ms: spacing 100 ms
	A := Config{T: 10, IntervalMs: 1000, MaxQMs: 150}
	x := A.spacing(1)
	tk := func(ns int64) cstep { return cstep{Tick: ns} }
	for _, warm := range []bool{false, true} {
		add(A, warm, []cstep{c1}, []cstep{c1})
		add(A, warm, []cstep{c1}, []cstep{c1}, []cstep{c1})
		add(A, warm, []cstep{c1, c1}, []cstep{c1})
		add(A, warm, []cstep{c1}, []cstep{c1}, []cstep{tk(x / 2)})
		add(A, warm, []cstep{c1}, []cstep{c1}, []cstep{tk(x)})
		add(A, warm, []cstep{c1}, []cstep{c1}, []cstep{tk(3 * x / 2), c1, c1})
		add(A, warm, []cstep{c1, c1}, []cstep{c1}, []cstep{tk(3 * x / 2)})
		add(A, warm, []cstep{c1}, []cstep{c2}, []cstep{tk(x)})
	}
	// no queueing allowed; tiny queueing; large
	for _, mq := range []uint32{0, 1, 1000} {
		B := Config{T: 2, IntervalMs: 10, MaxQMs: mq}
		xb := B.spacing(1)
		add(B, true, []cstep{c1}, []cstep{c1}, []cstep{tk(xb)})
		add(B, false, []cstep{c1, c1}, []cstep{c1})
		add(B, true, []cstep{c1}, []cstep{c1}, []cstep{tk(1), tk(xb - 1)})
	}
	if !quick {
		C := Config{T: 3, IntervalMs: 1000, MaxQMs: 500}
		xc := C.spacing(1)
		for _, warm := range []bool{false, true} {
			add(C, warm, []cstep{c1, c1}, []cstep{c1, c1})
			add(C, warm, []cstep{c1, c1}, []cstep{c1, c1}, []cstep{tk(xc)})
			add(C, warm, []cstep{c1}, []cstep{c1}, []cstep{c1}, []cstep{tk(xc / 2), tk(xc)})
			add(A, warm, []cstep{c1, c1}, []cstep{c1, c1}, []cstep{tk(3 * x / 2), c1})
			add(A, warm, []cstep{c1}, []cstep{c1}, []cstep{tk(3 * x / 2), c1, c1}, []cstep{c1})
		}
	}
	return out
}

type concReplay struct {
	Kind    string   `json:"kind"`
	Scen    concScen `json:"scen"`
	Choices []int    `json:"choices"`
	Shared  []uint64 `json:"shared"`
}

func concSig(what string) string {
	switch {
	case strings.Contains(what, "apart, required"):
		if strings.Contains(what, ": 0ns apart") {
			return "C10:concurrent:duplicate-pass-time"
		}
		return "C10:concurrent:spacing-violated"
	case strings.Contains(what, "asked to wait"):
		return "C10:concurrent:wait-exceeds-limit"
	case strings.Contains(what, "rejected although"):
		return "C10:concurrent:unjustified-rejection"
	case strings.Contains(what, "livelock"), strings.Contains(what, "deadlock"):
		return "C10:concurrent:non-termination"
	}
	return "C10:concurrent:other"
}

func runConc(c *props.Ctx, base int) {
	all := concScenarios(c.Quick())
	c.R.Bounds["concurrent_scenarios"] = len(all)
	c.R.Bounds["concurrent_mode"] = "ALL interleavings of 2-4 threads on ThrottlingChecker.DoCheck at atomic-access granularity, clock ticks as thread steps (state-key pruning + shared-location reduction)"
	for i, s := range all {
		if !c.Mine(base + i) {
			continue
		}
		res := sched.Explore(s.scenario(), sched.Options{Bound: -1, Deadline: c.Deadline, MaxExecs: 5000000})
		c.R.Evaluations += int64(res.Execs)
		c.R.Traces += int64(res.Execs)
		c.R.Transitions += res.Steps
		c.R.States += int64(res.States)
		for o := range res.Outcomes {
			c.R.Outcome("conc|" + s.name() + "|" + o)
		}
		if res.HarnessErr != "" {
			c.R.HarnessError(s.name() + ": " + res.HarnessErr)
		}
		if res.CapHit != "" {
			c.R.Cap(res.CapHit)
		}
		if i%5 == 0 {
			c.R.Sample(map[string]interface{}{"concurrent": s.name(), "execs": res.Execs, "states": res.States, "outcomes": len(res.Outcomes)})
		}
		for _, v := range res.Violations {
			c.R.Violate(report.Violation{Signature: concSig(v.What), What: v.What, Scenario: s.name(),
				Replay: concReplay{Kind: "conc", Scen: *s, Choices: v.Choices, Shared: v.Shared}})
		}
	}
}

func replayConc(raw json.RawMessage) (bool, string) {
	var d concReplay
	if err := json.Unmarshal(raw, &d); err != nil {
		return false, err.Error()
	}
	s := d.Scen
	_, w := sched.Replay(s.scenario(), d.Choices, d.Shared)
	return w != "", w
}
