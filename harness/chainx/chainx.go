// Package chainx builds slot chains for the harness: the default slots plus harness slots
// that mark the boundary between the rule-check phase and the statistic phase of an entry
// (the "admission path" granularity of properties C02 and C04), without any hook in /repo.
package chainx

import (
	"math"

	"github.com/alibaba/sentinel-golang/core/base"
	"github.com/alibaba/sentinel-golang/core/circuitbreaker"
	"github.com/alibaba/sentinel-golang/core/flow"
	"github.com/alibaba/sentinel-golang/core/hotspot"
	"github.com/alibaba/sentinel-golang/core/isolation"
	"github.com/alibaba/sentinel-golang/core/log"
	"github.com/alibaba/sentinel-golang/core/stat"
	"github.com/alibaba/sentinel-golang/core/system"
	"github.com/alibaba/sentinel-golang/verifshim/vsched"
)

// Hooks are the harness callbacks of a phase chain. All optional.
type Hooks struct {
	// BeforeChecks runs first in the rule-check phase (order 0).
	BeforeChecks func(ctx *base.EntryContext)
	// AfterChecks runs last in the rule-check phase, only if nothing blocked.
	AfterChecks func(ctx *base.EntryContext)
	// Passed / Blocked run first in the statistic phase, after the phase scheduling point.
	Passed  func(ctx *base.EntryContext)
	Blocked func(ctx *base.EntryContext, err *base.BlockError)
	// Completed runs first among the completion callbacks.
	Completed func(ctx *base.EntryContext)
	// Recorded runs last in the statistic phase of a passed entry: every statistic slot has seen it.
	Recorded func(ctx *base.EntryContext)
}

type lastStat struct{ h *Hooks }

func (s *lastStat) Order() uint32 { return math.MaxUint32 }
func (s *lastStat) OnEntryPassed(ctx *base.EntryContext) {
	if s.h.Recorded != nil {
		s.h.Recorded(ctx)
	}
}
func (s *lastStat) OnEntryBlocked(ctx *base.EntryContext, err *base.BlockError) {}
func (s *lastStat) OnCompleted(ctx *base.EntryContext)                          {}

type firstCheck struct{ h *Hooks }

func (s *firstCheck) Order() uint32 { return 0 }
func (s *firstCheck) Check(ctx *base.EntryContext) *base.TokenResult {
	if s.h.BeforeChecks != nil {
		s.h.BeforeChecks(ctx)
	}
	return nil
}

type lastCheck struct{ h *Hooks }

func (s *lastCheck) Order() uint32 { return math.MaxUint32 }
func (s *lastCheck) Check(ctx *base.EntryContext) *base.TokenResult {
	if s.h.AfterChecks != nil {
		s.h.AfterChecks(ctx)
	}
	return nil
}

type phaseStat struct{ h *Hooks }

func (s *phaseStat) Order() uint32 { return 0 }
func (s *phaseStat) OnEntryPassed(ctx *base.EntryContext) {
	// the boundary between "checked" and "recorded": a scheduling point of its own
	vsched.Point(vsched.KUser, nil)
	if s.h.Passed != nil {
		s.h.Passed(ctx)
	}
}
func (s *phaseStat) OnEntryBlocked(ctx *base.EntryContext, err *base.BlockError) {
	vsched.Point(vsched.KUser, nil)
	if s.h.Blocked != nil {
		s.h.Blocked(ctx, err)
	}
}
func (s *phaseStat) OnCompleted(ctx *base.EntryContext) {
	if s.h.Completed != nil {
		s.h.Completed(ctx)
	}
}

// NewPhaseChain returns the default slot chain extended with the harness phase slots.
func NewPhaseChain(h *Hooks) *base.SlotChain {
	sc := base.NewSlotChain()
	sc.AddStatPrepareSlot(stat.DefaultResourceNodePrepareSlot)
	sc.AddRuleCheckSlot(&firstCheck{h})
	sc.AddRuleCheckSlot(system.DefaultAdaptiveSlot)
	sc.AddRuleCheckSlot(flow.DefaultSlot)
	sc.AddRuleCheckSlot(isolation.DefaultSlot)
	sc.AddRuleCheckSlot(hotspot.DefaultSlot)
	sc.AddRuleCheckSlot(circuitbreaker.DefaultSlot)
	sc.AddRuleCheckSlot(&lastCheck{h})
	sc.AddStatSlot(&phaseStat{h})
	sc.AddStatSlot(stat.DefaultSlot)
	sc.AddStatSlot(log.DefaultSlot)
	sc.AddStatSlot(flow.DefaultStandaloneStatSlot)
	sc.AddStatSlot(hotspot.DefaultConcurrencyStatSlot)
	sc.AddStatSlot(circuitbreaker.DefaultMetricStatSlot)
	sc.AddStatSlot(&lastStat{h})
	return sc
}

// OnlyUser is the point filter for admission-path granularity.
func OnlyUser(kind uint8) bool { return kind == vsched.KUser }
