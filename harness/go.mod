module verifharness

go 1.22

require github.com/alibaba/sentinel-golang v0.0.0

require (
	github.com/google/uuid v1.1.1 // indirect
	github.com/pkg/errors v0.9.1 // indirect
)

replace github.com/alibaba/sentinel-golang => /repo
