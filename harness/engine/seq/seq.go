// Package seq is Engine B: explicit-state breadth-first exploration of operation sequences
// executed on the real code. Live objects cannot be cloned, so a successor state is produced
// by replaying the shortest path to its parent on a fresh instance and applying one more
// operation; every transition is judged (reference-model comparison / invariant) and a
// successor is expanded only if its canonical key (model state + dump of the
// implementation's private state) is new.
package seq

import (
	"time"
)

// Scenario is one closed sequential driver.
type Scenario interface {
	Name() string
	NumOps() int
	OpName(i int) string
	// Reset builds a fresh implementation instance and reference model.
	Reset()
	// Enabled reports whether op i may be applied in the current state.
	Enabled(i int) bool
	// Apply executes op i on the implementation and on the model and compares them. obs is a
	// short description of what the implementation answered (for the distinct-outcome count);
	// violation is non-empty if the property is broken by this step.
	Apply(i int) (obs string, violation string)
	// Key is the canonical state after the last Apply.
	Key() string
}

// Finalizer is an optional extension: Final runs once after the last operation of a
// transition (never after the replayed prefix), so it may probe the implementation
// destructively; whatever it changes is not part of any successor.
type Finalizer interface {
	Final() (obs string, violation string)
}

type Violation struct {
	Path []int    `json:"path"`
	Ops  []string `json:"ops"`
	What string   `json:"what"`
}

type Result struct {
	Scenario    string              `json:"scenario"`
	Depth       int                 `json:"depth_completed"`
	States      int                 `json:"states"`
	Transitions int64               `json:"transitions"`
	Applies     int64               `json:"applies"`
	Obs         map[string]struct{} `json:"-"`
	Violations  []*Violation        `json:"violations,omitempty"`
	CapHit      string              `json:"cap_hit,omitempty"`
	SamplePath  []string            `json:"sample_path,omitempty"`
}

type Options struct {
	Depth     int
	MaxStates int
	Deadline  time.Time
	// MaxViolations stops the search early (0 = 64 recorded violations).
	MaxViolations int
	// Classify maps a violation text to its class; at most 3 violations are recorded per
	// class so that a frequent (e.g. already known) class cannot exhaust MaxViolations and
	// hide a different one.
	Classify func(what string) string
	// Shard/NShards split one search over worker processes: the expansions at depth 2 are
	// dealt round-robin (each worker keeps its own seen set: sound, partly redundant).
	Shard, NShards int
	// KeepGoing: expand states even after a violating transition was seen elsewhere.
}

func names(sc Scenario, p []int) []string {
	out := make([]string, len(p))
	for i, o := range p {
		out[i] = sc.OpName(o)
	}
	return out
}

// Explore runs the breadth-first search.
func Explore(sc Scenario, opt Options) *Result {
	res := &Result{Scenario: sc.Name(), Obs: map[string]struct{}{}}
	if opt.MaxViolations == 0 {
		opt.MaxViolations = 64
	}
	perClass := map[string]int{}
	seen := map[string]struct{}{}
	sc.Reset()
	seen[sc.Key()] = struct{}{}
	frontier := [][]int{{}}
	nops := sc.NumOps()
	cnt := 0
	idx2 := -1
	for depth := 1; depth <= opt.Depth && len(frontier) > 0; depth++ {
		var next [][]int
		for _, path := range frontier {
			for op := 0; op < nops; op++ {
				if depth == 2 && opt.NShards > 1 {
					idx2++
					if idx2%opt.NShards != opt.Shard {
						continue
					}
				}
				cnt++
				if cnt%256 == 0 && !opt.Deadline.IsZero() && time.Now().After(opt.Deadline) {
					res.CapHit = "deadline"
					res.States = len(seen)
					return res
				}
				sc.Reset()
				bad := false
				for _, o := range path {
					if _, v := sc.Apply(o); v != "" {
						// a prefix that was clean before now violates: nondeterminism
						res.Violations = append(res.Violations, &Violation{Path: append([]int(nil), path...), Ops: names(sc, path), What: "NONDETERMINISM on replay: " + v})
						bad = true
						break
					}
					res.Applies++
				}
				if bad {
					res.CapHit = "nondeterminism"
					res.States = len(seen)
					return res
				}
				if !sc.Enabled(op) {
					continue
				}
				obs, viol := sc.Apply(op)
				res.Applies++
				res.Transitions++
				var key string
				if viol == "" {
					key = sc.Key()
					if f, ok := sc.(Finalizer); ok {
						o2, v2 := f.Final()
						obs += o2
						viol = v2
					}
				}
				res.Obs[obs] = struct{}{}
				if viol != "" {
					cls := viol
					if opt.Classify != nil {
						cls = opt.Classify(viol)
					}
					perClass[cls]++
					if perClass[cls] > 3 {
						continue
					}
					np := append(append([]int(nil), path...), op)
					res.Violations = append(res.Violations, &Violation{Path: np, Ops: names(sc, np), What: viol})
					if len(res.Violations) >= opt.MaxViolations {
						res.CapHit = "violation limit"
						res.States = len(seen)
						return res
					}
					continue
				}
				k := key
				if _, ok := seen[k]; ok {
					continue
				}
				seen[k] = struct{}{}
				np := append(append([]int(nil), path...), op)
				if res.SamplePath == nil && depth >= 3 {
					res.SamplePath = names(sc, np)
				}
				if opt.MaxStates > 0 && len(seen) >= opt.MaxStates {
					res.CapHit = "max states"
					res.States = len(seen)
					return res
				}
				next = append(next, np)
			}
		}
		frontier = next
		res.Depth = depth
	}
	res.States = len(seen)
	return res
}

// Replay applies a path and returns the first violation.
func Replay(sc Scenario, path []int) string {
	sc.Reset()
	for _, o := range path {
		if !sc.Enabled(o) {
			return ""
		}
		if _, v := sc.Apply(o); v != "" {
			return v
		}
	}
	if f, ok := sc.(Finalizer); ok {
		_, v := f.Final()
		return v
	}
	return ""
}
