// Package sched is Engine A's explorer: a stateless depth-first enumeration of the
// schedules of a small multi-threaded scenario running the real (import-rewritten) code
// under verifshim/vsched, with iterative preemption bounding and optional global-state-key
// pruning (unbounded mode).
package sched

import (
	"fmt"
	"math/bits"
	"os"
	"runtime"
	"sort"
	"time"

	"github.com/alibaba/sentinel-golang/verifshim/vsched"
)

// Scenario describes one closed multi-threaded driver.
type Scenario struct {
	Name string
	// Setup builds fresh state; it runs on the driver goroutine before every execution.
	Setup func()
	// Threads returns the thread bodies of one execution (fresh closures).
	Threads func() []func()
	// Check judges one finished execution. It returns a short outcome string (used to count
	// distinct outcomes) and a non-empty violation description if the property is broken.
	Check func(x *vsched.Exec) (outcome string, violation string)
	// StateKey, if set, enables keyed mode when Explore is called with bound < 0.
	StateKey func() uint64
	// Filter restricts choice points to the given kinds.
	Filter   func(kind uint8) bool
	MaxSteps int
	// HorizonViolates: the property promises termination, so an execution that exceeds ten times the
	// step horizon is a violation instead of a harness error
	HorizonViolates bool
	// POR enables shared-location partial-order reduction (the scenario registers its memory
	// with vsched.RegisterRegion in Setup); Explore then iterates the shared set to a fixpoint.
	POR bool
	// TrustFirst: a violation is recorded without the 5x replay confirmation. Needed when the
	// verdict comes from the race detector, which reports a given pair of stacks only once per
	// process; the report text itself is then the evidence and a replay in a fresh process
	// (vcheck --replay) reproduces it.
	TrustFirst bool
}

type Violation struct {
	Scenario string   `json:"scenario"`
	Choices  []int    `json:"choices"`
	Shared   []uint64 `json:"shared,omitempty"` // POR shared-location ids in force (needed to replay)
	What     string   `json:"what"`
	Outcome  string   `json:"outcome"`
}

type Result struct {
	Scenario    string         `json:"scenario"`
	Bound       int            `json:"bound"` // -1 = unbounded (keyed)
	Execs       int            `json:"execs"`
	Steps       int64          `json:"steps"`
	ChoicePts   int64          `json:"choice_points"`
	States      int            `json:"states"` // distinct state keys (keyed) else choice points
	Pruned      int            `json:"pruned"`
	MaxPreempt  int            `json:"max_preemptions_seen"`
	Outcomes    map[string]int `json:"outcomes"`
	Completed   bool           `json:"completed"`
	CapHit      string         `json:"cap_hit,omitempty"`
	HarnessErr  string         `json:"harness_error,omitempty"`
	Violations  []*Violation   `json:"violations,omitempty"`
	SampleSched []int          `json:"sample_schedule,omitempty"`
	Deadlocks   int            `json:"deadlocks"`
	PORRounds   int            `json:"por_rounds,omitempty"`
	SharedLocs  int            `json:"shared_locations,omitempty"`
}

type Options struct {
	Bound     int // max preemptions; <0 = unbounded with state key
	MaxExecs  int
	Deadline  time.Time
	Shard     int
	NShards   int
	StopFirst bool // stop at the first violation
	// Classify maps a violation text to its class (default: the text with every digit run replaced)
	Classify func(what string) string
}

type explorer struct {
	perClass map[string]int
	sc       *Scenario
	opt      Options
	res      *Result
	visited  map[uint64]struct{}
	stop     bool
	topIdx   int
	shared   map[uint64]bool
	access   map[uint64]uint32
}

func init() {
	if os.Getenv("VERIF_FREE") == "" {
		runtime.GOMAXPROCS(1)
	}
}

func (e *explorer) runOnce(prefix []int, et []int8, ek []uint8) *vsched.Exec {
	e.sc.Setup()
	c := &vsched.Config{Prefix: prefix, ExpectThread: et, ExpectKind: ek, MaxSteps: e.sc.MaxSteps, Filter: e.sc.Filter}
	if c.MaxSteps == 0 {
		c.MaxSteps = 20000
	}
	if e.opt.Bound < 0 && e.sc.StateKey != nil {
		c.StateKey = e.sc.StateKey
		c.Visited = e.visited
	}
	if e.sc.POR {
		c.POR, c.Shared, c.Access = true, e.shared, e.access
	}
	x := vsched.Run(c, e.sc.Threads())
	e.res.Execs++
	e.res.Steps += int64(x.Steps)
	return x
}

// altCost is the deviation cost of taking alternative alt at point p: switching away from a
// runnable thread is a preemption (CHESS); letting a thread that has just yielded run on at
// once - spinning instead of giving way - is charged too, otherwise every iteration of a spin
// loop doubles the schedule tree at no cost. All other switches (blocked, finished, giving way
// at a yield) are free.
func altCost(p *vsched.PointRec, alt int) int {
	if p.RunningEn && alt != 0 {
		return 1
	}
	if p.SelfIdx >= 0 && alt == int(p.SelfIdx) {
		return 1
	}
	return 0
}

func preemptionsBefore(x *vsched.Exec, i int) int {
	n := 0
	for j := 0; j < i; j++ {
		n += altCost(&x.Points[j], x.Choices[j])
	}
	return n
}

func (e *explorer) judge(x *vsched.Exec) {
	if x.Diverged != "" {
		e.res.HarnessErr = "NONDETERMINISM: " + x.Diverged
		e.stop = true
		return
	}
	nonterm := false
	if x.Horizon && e.sc.HorizonViolates {
		// the property promises termination: an execution that is still running after ten times the
		// horizon (which complete executions of the unchanged code stay far below) does not terminate
		save := e.sc.MaxSteps
		if save == 0 {
			save = 20000
		}
		e.sc.MaxSteps = save * 10
		y := e.replay(x.Choices)
		e.sc.MaxSteps = save
		nonterm = y.Horizon
	}
	if x.Horizon && !nonterm {
		e.res.HarnessErr = fmt.Sprintf("step horizon exceeded, choices=%v", x.Choices)
		e.stop = true
		return
	}
	if x.Leaked {
		e.res.HarnessErr = "aborted threads leaked"
		e.stop = true
		return
	}
	var outcome, viol string
	if nonterm {
		outcome, viol = "NONTERMINATION", "a thread does not terminate: still running after 10x the step horizon"
	} else if x.Deadlock {
		e.res.Deadlocks++
		outcome, viol = "DEADLOCK", "deadlock: no enabled thread while some are unfinished"
	} else if x.Livelock {
		outcome, viol = "LIVELOCK", "livelock: only spinning threads remain enabled"
	} else if x.PanicVal != nil {
		outcome = "PANIC"
		viol = fmt.Sprintf("panic in thread %d: %v", x.PanicThr, x.PanicVal)
	} else if x.PrunedAt >= 0 {
		// the tail of a pruned execution revisits known states; it is still a complete,
		// valid execution, so judge it as well.
		outcome, viol = e.sc.Check(x)
	} else {
		outcome, viol = e.sc.Check(x)
	}
	e.res.Outcomes[outcome]++
	if p := preemptionsBefore(x, len(x.Points)); p > e.res.MaxPreempt {
		e.res.MaxPreempt = p
	}
	if viol != "" {
		// at most 3 violations are recorded per class, and a frequent class (for instance one that is a
		// listed known finding) never ends the exploration: a different violation further on must still be found
		cls := e.classOf(viol)
		e.perClass[cls]++
		if e.perClass[cls] > 3 {
			return
		}
		v := &Violation{Scenario: e.sc.Name, Choices: append([]int(nil), x.Choices...), What: viol, Outcome: outcome}
		for id := range e.shared {
			v.Shared = append(v.Shared, id)
		}
		sort.Slice(v.Shared, func(i, j int) bool { return v.Shared[i] < v.Shared[j] })
		// must reproduce identically
		ok := true
		for k := 0; k < 5 && !e.sc.TrustFirst; k++ {
			y := e.replay(v.Choices)
			_, v2 := e.checkExec(y)
			if v2 != viol {
				ok = false
				e.res.HarnessErr = fmt.Sprintf("NONDETERMINISM: violation %q did not reproduce (got %q)", viol, v2)
				break
			}
		}
		if ok {
			e.res.Violations = append(e.res.Violations, v)
			if e.opt.StopFirst || len(e.res.Violations) >= 60 {
				e.stop = true
			}
		} else {
			e.stop = true
		}
	}
}

func (e *explorer) checkExec(x *vsched.Exec) (string, string) {
	if x.Horizon && e.sc.HorizonViolates {
		return "NONTERMINATION", "a thread does not terminate: still running after 10x the step horizon"
	}
	if x.Deadlock {
		return "DEADLOCK", "deadlock: no enabled thread while some are unfinished"
	}
	if x.Livelock {
		return "LIVELOCK", "livelock: only spinning threads remain enabled"
	}
	if x.PanicVal != nil {
		return "PANIC", fmt.Sprintf("panic in thread %d: %v", x.PanicThr, x.PanicVal)
	}
	return e.sc.Check(x)
}

func (e *explorer) replay(choices []int) *vsched.Exec {
	e.sc.Setup()
	c := &vsched.Config{Prefix: choices, MaxSteps: e.sc.MaxSteps, Filter: e.sc.Filter}
	if c.MaxSteps == 0 {
		c.MaxSteps = 20000
	}
	if e.sc.POR {
		c.POR, c.Shared, c.Access = true, e.shared, map[uint64]uint32{}
	}
	return vsched.Run(c, e.sc.Threads())
}

func (e *explorer) explore(prefix []int, et []int8, ek []uint8, depth int) {
	if e.stop {
		return
	}
	if e.opt.MaxExecs > 0 && e.res.Execs >= e.opt.MaxExecs {
		e.res.CapHit = "max executions"
		e.stop = true
		return
	}
	if !e.opt.Deadline.IsZero() && e.res.Execs%64 == 0 && time.Now().After(e.opt.Deadline) {
		e.res.CapHit = "deadline"
		e.stop = true
		return
	}
	x := e.runOnce(prefix, et, ek)
	mine := depth > 0 || e.opt.Shard == 0
	if mine {
		e.judge(x)
	}
	if e.stop {
		return
	}
	if e.res.SampleSched == nil && len(x.Choices) > 0 {
		e.res.SampleSched = append([]int(nil), x.Choices...)
	}
	limit := len(x.Points)
	if x.PrunedAt >= 0 {
		limit = x.PrunedAt
		e.res.Pruned++
	}
	nt := make([]int8, len(x.Points))
	nk := make([]uint8, len(x.Points))
	for i, p := range x.Points {
		nt[i], nk[i] = p.Thread, p.Kind
	}
	for i := len(prefix); i < limit; i++ {
		p := x.Points[i]
		e.res.ChoicePts++
		base := 0
		if e.opt.Bound >= 0 {
			base = preemptionsBefore(x, i)
		}
		for alt := 1; alt < len(p.Enabled); alt++ {
			if e.opt.Bound >= 0 && base+altCost(&p, alt) > e.opt.Bound {
				continue
			}
			if depth == 0 && e.opt.NShards > 1 {
				idx := e.topIdx
				e.topIdx++
				if idx%e.opt.NShards != e.opt.Shard {
					continue
				}
			}
			np := make([]int, i+1)
			copy(np, x.Choices[:i])
			np[i] = alt
			e.explore(np, nt[:i+1], nk[:i+1], depth+1)
			if e.stop {
				return
			}
		}
	}
}

// Explore enumerates the schedules of sc within opt.
func Explore(sc *Scenario, opt Options) *Result {
	if opt.NShards == 0 {
		opt.NShards = 1
	}
	e := &explorer{sc: sc, opt: opt, visited: map[uint64]struct{}{}, shared: map[uint64]bool{}, access: map[uint64]uint32{}}
	rounds := 0
	for {
		rounds++
		e.visited = map[uint64]struct{}{}
		e.stop = false
		e.topIdx = 0
		e.res = &Result{Scenario: sc.Name, Bound: opt.Bound, Outcomes: map[string]int{}}
		e.explore(nil, nil, nil, 0)
		if !sc.POR || len(e.res.Violations) > 0 || e.res.HarnessErr != "" || e.res.CapHit != "" {
			break
		}
		grew := false
		for id, m := range e.access {
			if m&(1<<31) != 0 && bits.OnesCount32(m&^(1<<31)) >= 2 && !e.shared[id] {
				e.shared[id] = true
				grew = true
			}
		}
		if !grew {
			break
		}
	}
	e.res.PORRounds = rounds
	e.res.SharedLocs = len(e.shared)
	e.res.Completed = !e.stop || (len(e.res.Violations) > 0 && e.res.CapHit == "" && e.res.HarnessErr == "")
	if e.res.CapHit != "" || e.res.HarnessErr != "" {
		e.res.Completed = false
	}
	if opt.Bound < 0 && sc.StateKey != nil {
		e.res.States = len(e.visited)
	} else {
		e.res.States = int(e.res.ChoicePts)
	}
	return e.res
}

// Replay runs one recorded schedule and returns outcome and violation text.
func Replay(sc *Scenario, choices []int, shared []uint64) (string, string) {
	e := &explorer{sc: sc, opt: Options{Bound: 1 << 30}, visited: map[uint64]struct{}{}, shared: map[uint64]bool{}, access: map[uint64]uint32{}}
	for _, id := range shared {
		e.shared[id] = true
	}
	e.res = &Result{Outcomes: map[string]int{}}
	x := e.replay(choices)
	if x.Diverged != "" {
		return "DIVERGED", ""
	}
	return e.checkExec(x)
}

func (e *explorer) classOf(what string) string {
	if e.perClass == nil {
		e.perClass = map[string]int{}
	}
	if e.opt.Classify != nil {
		return e.opt.Classify(what)
	}
	b := make([]byte, 0, len(what))
	prevDigit := false
	for i := 0; i < len(what); i++ {
		c := what[i]
		if c >= '0' && c <= '9' {
			if !prevDigit {
				b = append(b, '#')
			}
			prevDigit = true
			continue
		}
		prevDigit = false
		b = append(b, c)
	}
	return string(b)
}
