// Package env owns the nondeterminism of the code under test for the harness: virtual
// clock, silent logger, and the reset of all global state between executions.
package env

import (
	"sync/atomic"
	"time"

	"github.com/alibaba/sentinel-golang/core/circuitbreaker"
	"github.com/alibaba/sentinel-golang/core/config"
	"github.com/alibaba/sentinel-golang/core/flow"
	"github.com/alibaba/sentinel-golang/core/hotspot"
	"github.com/alibaba/sentinel-golang/core/isolation"
	"github.com/alibaba/sentinel-golang/core/stat"
	"github.com/alibaba/sentinel-golang/core/system"
	"github.com/alibaba/sentinel-golang/logging"
	"github.com/alibaba/sentinel-golang/util"
	"github.com/alibaba/sentinel-golang/verifshim/vsched"
	vsync "github.com/alibaba/sentinel-golang/verifshim/vsync"
)

// VClock is the virtual clock. Time moves only by Set/Advance, or by Sleep when
// SleepAdvances is set.
type VClock struct {
	ns            int64
	SleepAdvances bool
	// Sleeps records every requested sleep of the current execution.
	sleeps []time.Duration
	// OnSleep, if set, is called for each Sleep request (before any advance).
	OnSleep func(d time.Duration)
	// OnNano, if set, is called with every value handed out by CurrentTimeNano.
	OnNano func(ns int64)
}

var Clock = &VClock{}

func (c *VClock) Now() time.Time {
	v := atomic.LoadInt64(&c.ns)
	vsched.Observe(uint64(v))
	return time.Unix(0, v)
}
func (c *VClock) CurrentTimeMillis() uint64 {
	v := atomic.LoadInt64(&c.ns)
	vsched.Observe(uint64(v))
	return uint64(v) / 1e6
}
func (c *VClock) CurrentTimeNano() uint64 {
	v := atomic.LoadInt64(&c.ns)
	vsched.Observe(uint64(v))
	if c.OnNano != nil {
		c.OnNano(v)
	}
	return uint64(v)
}
func (c *VClock) Sleep(d time.Duration) {
	if c.OnSleep != nil {
		c.OnSleep(d)
	}
	c.sleeps = append(c.sleeps, d)
	if c.SleepAdvances && d > 0 {
		atomic.AddInt64(&c.ns, int64(d))
	}
}

func (c *VClock) SetNs(ns int64)          { atomic.StoreInt64(&c.ns, ns) }
func (c *VClock) SetMs(ms int64)          { atomic.StoreInt64(&c.ns, ms*1e6) }
func (c *VClock) AdvanceMs(ms int64)      { atomic.AddInt64(&c.ns, ms*1e6) }
func (c *VClock) AdvanceNs(ns int64)      { atomic.AddInt64(&c.ns, ns) }
func (c *VClock) Ns() int64               { return atomic.LoadInt64(&c.ns) }
func (c *VClock) Ms() int64               { return atomic.LoadInt64(&c.ns) / 1e6 }
func (c *VClock) Sleeps() []time.Duration { return c.sleeps }
func (c *VClock) ResetSleeps()            { c.sleeps = c.sleeps[:0] }

type nopLogger struct{}

func (nopLogger) Debug(msg string, keysAndValues ...interface{})            {}
func (nopLogger) DebugEnabled() bool                                        { return false }
func (nopLogger) Info(msg string, keysAndValues ...interface{})             {}
func (nopLogger) InfoEnabled() bool                                         { return false }
func (nopLogger) Warn(msg string, keysAndValues ...interface{})             {}
func (nopLogger) WarnEnabled() bool                                         { return false }
func (nopLogger) Error(err error, msg string, keysAndValues ...interface{}) {}
func (nopLogger) ErrorEnabled() bool                                        { return false }

var installed bool

// Install puts the virtual clock and the silent logger in place (idempotent).
func Install() {
	if installed {
		return
	}
	installed = true
	util.SetClock(Clock)
	_ = logging.ResetGlobalLogger(nopLogger{})
}

// Geometry of the global statistics (array and default metric view).
type Geometry struct {
	ArrSamples, ArrIntervalMs, ViewSamples, ViewIntervalMs uint32
}

var DefaultGeometry = Geometry{20, 10000, 2, 1000}

// ResetAll puts every piece of global state of the code under test back to a fresh state:
// configuration, rules of all modules, breaker listeners, resource nodes, inbound node, pools,
// clock (set to startMs).
func ResetAll(g Geometry, startMs int64) {
	Install()
	cfg := config.NewDefaultConfig()
	cfg.Sentinel.Stat.GlobalStatisticSampleCountTotal = g.ArrSamples
	cfg.Sentinel.Stat.GlobalStatisticIntervalMsTotal = g.ArrIntervalMs
	cfg.Sentinel.Stat.MetricStatisticSampleCount = g.ViewSamples
	cfg.Sentinel.Stat.MetricStatisticIntervalMs = g.ViewIntervalMs
	config.ResetGlobalConfig(cfg)
	Clock.SetMs(startMs)
	Clock.SleepAdvances = false
	Clock.OnSleep = nil
	Clock.OnNano = nil
	Clock.ResetSleeps()
	_ = flow.ClearRules()
	_ = isolation.ClearRules()
	_ = hotspot.ClearRules()
	_ = circuitbreaker.ClearRules()
	circuitbreaker.ClearStateChangeListeners()
	_ = system.ClearRules()
	stat.ResetResourceNodeMap()
	stat.VerifResetInbound()
	vsync.ResetPools()
	vsync.PoolMiss = nil
}
