// Package time (import path …/verifshim/vtime) replaces "time" in core/outlier/recycler.go and
// retryer.go only: time.AfterFunc no longer arms a real timer but records a pending virtual
// timer that the harness fires explicitly ("fire timer k" is an event of the explored
// histories). Everything else is the real package.
package time

import (
	"sort"
	rs "sync"
	rt "time"

	"github.com/alibaba/sentinel-golang/util"
)

type (
	Duration = rt.Duration
	Time     = rt.Time
)

const (
	Nanosecond  = rt.Nanosecond
	Microsecond = rt.Microsecond
	Millisecond = rt.Millisecond
	Second      = rt.Second
	Minute      = rt.Minute
	Hour        = rt.Hour
)

func Now() Time                    { return rt.Now() }
func Since(t Time) Duration        { return rt.Since(t) }
func Sleep(d Duration)             { rt.Sleep(d) }
func After(d Duration) <-chan Time { return rt.After(d) }

// Timer is a recorded virtual timer.
type Timer struct {
	id      int
	dueMs   uint64
	delay   Duration
	f       func()
	stopped bool
}

var (
	mu      rs.Mutex
	pending []*Timer
	seq     int
)

// AfterFunc records f to run when the harness fires the timer; the due time is computed on
// the sentinel clock (util.CurrentTimeMillis), i.e. the harness's virtual clock.
func AfterFunc(d Duration, f func()) *Timer {
	mu.Lock()
	defer mu.Unlock()
	seq++
	t := &Timer{id: seq, dueMs: util.CurrentTimeMillis() + uint64(d/rt.Millisecond), delay: d, f: f}
	pending = append(pending, t)
	return t
}

func (t *Timer) Stop() bool {
	mu.Lock()
	defer mu.Unlock()
	was := !t.stopped
	t.stopped = true
	return was
}

// VerifTimer describes one pending timer.
type VerifTimer struct {
	ID    int
	DueMs uint64
}

// VerifPending lists the pending timers ordered by due time, then creation.
func VerifPending() []VerifTimer {
	mu.Lock()
	defer mu.Unlock()
	var out []VerifTimer
	for _, t := range pending {
		if !t.stopped {
			out = append(out, VerifTimer{t.id, t.dueMs})
		}
	}
	sort.SliceStable(out, func(i, j int) bool { return out[i].DueMs < out[j].DueMs })
	return out
}

// VerifFire runs the timer's function on the caller's goroutine.
func VerifFire(id int) bool {
	mu.Lock()
	var t *Timer
	for i, p := range pending {
		if p.id == id && !p.stopped {
			t = p
			pending = append(pending[:i], pending[i+1:]...)
			break
		}
	}
	mu.Unlock()
	if t == nil {
		return false
	}
	t.f()
	return true
}

// VerifReset drops all pending timers.
func VerifReset() {
	mu.Lock()
	pending = nil
	seq = 0
	mu.Unlock()
}

// VerifDropZeroDelay removes pending timers that were armed with a zero delay (only the
// barrier's marker tasks do that: their resource has no rule and hence no interval).
func VerifDropZeroDelay() {
	mu.Lock()
	defer mu.Unlock()
	kept := pending[:0]
	for _, t := range pending {
		if t.delay != 0 {
			kept = append(kept, t)
		}
	}
	pending = kept
}
