// Package runtime (import path …/verifshim/vruntime) replaces "runtime" in the two sentinel
// files that spin with runtime.Gosched: the yield becomes visible to the controlled scheduler.
package runtime

import "github.com/alibaba/sentinel-golang/verifshim/vsched"

func Gosched() { vsched.Yield() }
