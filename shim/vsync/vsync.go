// Package sync (import path …/verifshim/vsync) replaces "sync" in the rewritten copies of
// the sentinel sources. Mutex / RWMutex wrap the real primitives (so the race detector sees
// exactly the program's own synchronisation, and core/stat/base/mutex.go's TryLock, which
// CASes the first word of the embedded Mutex, keeps working); under the controlled
// scheduler an acquire is a scheduling point that is *disabled* while the lock is held, so
// the real Lock never blocks. Pool is a deterministic LIFO with an optional "miss" answer.
package sync

import (
	rs "sync"
	ra "sync/atomic"
	"unsafe"

	"github.com/alibaba/sentinel-golang/verifshim/vsched"
)

type (
	WaitGroup = rs.WaitGroup
	Map       = rs.Map
	Cond      = rs.Cond
	Locker    = rs.Locker
)

func NewCond(l Locker) *Cond { return rs.NewCond(l) }

// Mutex: the real mutex must stay the first field (TryLock hack reads its state word).
type Mutex struct {
	real rs.Mutex
}

const mutexLocked = 1

//go:norace
func (m *Mutex) held() bool {
	// plain read, invisible to the race detector: this runs on whichever goroutine evaluates the
	// scheduler and must not create a happens-before edge from the last unlocker to it
	return *(*int32)(unsafe.Pointer(&m.real))&mutexLocked != 0
}

func (m *Mutex) Lock() {
	vsched.Point(vsched.KLock, unsafe.Pointer(m))
	m.real.Lock()
}

func (m *Mutex) Unlock() {
	vsched.Point(vsched.KUnlock, unsafe.Pointer(m))
	m.real.Unlock()
}

func (m *Mutex) TryLock() bool {
	vsched.Point(vsched.KCAS, unsafe.Pointer(m))
	ok := m.real.TryLock()
	if ok {
		vsched.Observe(1)
	} else {
		vsched.Observe(0)
	}
	return ok
}

// RWMutex wraps the real one and shadows reader / writer occupancy so the scheduler can
// tell whether an acquire would block.
type RWMutex struct {
	real    rs.RWMutex
	readers int32
	writer  int32
}

func (m *RWMutex) Lock() {
	vsched.Point(vsched.KWLock, unsafe.Pointer(m))
	m.real.Lock()
	m.shadow(0, 1)
}

func (m *RWMutex) Unlock() {
	vsched.Point(vsched.KUnlock, unsafe.Pointer(m))
	m.shadow(0, -1)
	m.real.Unlock()
}

func (m *RWMutex) RLock() {
	vsched.Point(vsched.KRLock, unsafe.Pointer(m))
	m.real.RLock()
	m.shadow(1, 0)
}

func (m *RWMutex) RUnlock() {
	vsched.Point(vsched.KRUnlock, unsafe.Pointer(m))
	m.shadow(-1, 0)
	m.real.RUnlock()
}

// shadow updates the occupancy shadow with plain operations invisible to the race detector
// (atomics here would add reader-to-reader happens-before edges the real RWMutex does not
// have). The shadow is only consulted under the controlled scheduler, where all calls are
// serialised; a free-running process never consults it.
//
//go:norace
func (m *RWMutex) shadow(dr, dw int32) {
	m.readers += dr
	m.writer += dw
}

func (m *RWMutex) RLocker() Locker { return (*rlocker)(m) }

type rlocker RWMutex

func (r *rlocker) Lock()   { (*RWMutex)(r).RLock() }
func (r *rlocker) Unlock() { (*RWMutex)(r).RUnlock() }

//go:norace
func lockBlocked(kind uint8, addr unsafe.Pointer) bool {
	switch kind {
	case vsched.KLock:
		return (*Mutex)(addr).held()
	case vsched.KRLock:
		m := (*RWMutex)(addr)
		// a writer that is already waiting for the readers to leave goes first (Go's RWMutex:
		// "a blocked Lock call excludes new readers"), so a recursive read lock can deadlock
		return m.writer != 0 || (m.readers != 0 && vsched.WriterWaiting(addr))
	case vsched.KWLock:
		m := (*RWMutex)(addr)
		return m.writer != 0 || m.readers != 0
	}
	return false
}

func init() { vsched.LockBlocked = lockBlocked }

// Once follows the real implementation on top of the shim Mutex, so concurrent callers
// block until f has returned.
type Once struct {
	done uint32
	m    Mutex
}

func (o *Once) Do(f func()) {
	vsched.Point(vsched.KOncePoint, unsafe.Pointer(o))
	if ra.LoadUint32(&o.done) == 0 {
		o.doSlow(f)
	}
}

func (o *Once) doSlow(f func()) {
	o.m.Lock()
	defer o.m.Unlock()
	if o.done == 0 {
		defer ra.StoreUint32(&o.done, 1)
		f()
	}
}

// Pool is a deterministic LIFO free list. PoolMiss, when set by the harness, is consulted on
// every Get that would hit: answering true models an emptied pool (GC, other P).
type Pool struct {
	New   func() interface{}
	mu    rs.Mutex
	stack []interface{}
	reg   bool
}

var (
	PoolMiss func() bool
	poolsMu  rs.Mutex
	pools    []*Pool
)

func (p *Pool) Get() interface{} {
	vsched.Point(vsched.KPoolGet, unsafe.Pointer(p))
	x := p.pop()
	if x != nil {
		poolAcquire(x)
		return x
	}
	if p.New != nil {
		return p.New()
	}
	return nil
}

func (p *Pool) Put(x interface{}) {
	if x == nil {
		return
	}
	vsched.Point(vsched.KPoolPut, unsafe.Pointer(p))
	poolRelease(x)
	p.push(x)
}

//go:norace
func (p *Pool) pop() interface{} {
	raceOff()
	p.mu.Lock()
	var x interface{}
	if n := len(p.stack); n > 0 {
		if PoolMiss != nil && PoolMiss() {
			// drop the whole cache, as a GC would
			p.stack = p.stack[:0]
		} else {
			x = p.stack[n-1]
			p.stack[n-1] = nil
			p.stack = p.stack[:n-1]
		}
	}
	p.mu.Unlock()
	raceOn()
	return x
}

//go:norace
func (p *Pool) push(x interface{}) {
	raceOff()
	p.mu.Lock()
	if !p.reg {
		p.reg = true
		poolsMu.Lock()
		pools = append(pools, p)
		poolsMu.Unlock()
	}
	p.stack = append(p.stack, x)
	p.mu.Unlock()
	raceOn()
}

// ResetPools empties every pool that has ever been used (harness, between executions).
//
//go:norace
func ResetPools() {
	raceOff()
	poolsMu.Lock()
	for _, p := range pools {
		p.mu.Lock()
		for i := range p.stack {
			p.stack[i] = nil
		}
		p.stack = p.stack[:0]
		p.mu.Unlock()
	}
	poolsMu.Unlock()
	raceOn()
}

// PoolSizes returns the depth of every registered pool (harness state keys).
//
//go:norace
func PoolSizes() []int {
	raceOff()
	poolsMu.Lock()
	out := make([]int, 0, len(pools))
	for _, p := range pools {
		p.mu.Lock()
		out = append(out, len(p.stack))
		p.mu.Unlock()
	}
	poolsMu.Unlock()
	raceOn()
	return out
}
