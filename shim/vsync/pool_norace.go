//go:build !race

package sync

func raceOff()                  {}
func raceOn()                   {}
func poolRelease(x interface{}) {}
func poolAcquire(x interface{}) {}
