//go:build race

package sync

import (
	"runtime"
	"unsafe"
)

// Same happens-before discipline as the real sync.Pool: the pool's own bookkeeping is
// invisible to the detector, and an object carries a release (Put) -> acquire (Get) edge.
var poolRaceHash [128]uint64

func poolRaceAddr(x interface{}) unsafe.Pointer {
	ptr := uintptr((*[2]unsafe.Pointer)(unsafe.Pointer(&x))[1])
	h := uint32((uint64(uint32(ptr)) * 0x85ebca6b) >> 16)
	return unsafe.Pointer(&poolRaceHash[h%uint32(len(poolRaceHash))])
}

func raceOff()                  { runtime.RaceDisable() }
func raceOn()                   { runtime.RaceEnable() }
func poolRelease(x interface{}) { runtime.RaceReleaseMerge(poolRaceAddr(x)) }
func poolAcquire(x interface{}) { runtime.RaceAcquire(poolRaceAddr(x)) }
