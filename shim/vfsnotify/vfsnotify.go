// Package fsnotify (import path …/verifshim/vfsnotify) replaces github.com/fsnotify/fsnotify in
// ext/datasource/file/refreshable_file.go only: the watcher delivers exactly the events the
// harness injects (unbuffered channel = rendez-vous), so file-system event sequences become
// explicit, ordered operations of the explored histories.
package fsnotify

import (
	"errors"
	"os"
	"sync"
)

type Op uint32

const (
	Create Op = 1 << iota
	Write
	Remove
	Rename
	Chmod
)

type Event struct {
	Name string
	Op   Op
}

type Watcher struct {
	Events chan Event
	Errors chan error
	mu     sync.Mutex
	paths  map[string]bool
	closed bool
}

var (
	regMu    sync.Mutex
	watchers []*Watcher
)

func NewWatcher() (*Watcher, error) {
	w := &Watcher{Events: make(chan Event), Errors: make(chan error), paths: map[string]bool{}}
	regMu.Lock()
	watchers = append(watchers, w)
	regMu.Unlock()
	return w, nil
}

// Add fails, like the real inotify watcher, when the path does not exist.
func (w *Watcher) Add(name string) error {
	if _, err := os.Stat(name); err != nil {
		return err
	}
	w.mu.Lock()
	defer w.mu.Unlock()
	if w.closed {
		return errors.New("watcher closed")
	}
	w.paths[name] = true
	return nil
}

func (w *Watcher) Remove(name string) error {
	w.mu.Lock()
	defer w.mu.Unlock()
	if !w.paths[name] {
		return errors.New("can't remove non-existent watch")
	}
	delete(w.paths, name)
	return nil
}

func (w *Watcher) Close() error {
	w.mu.Lock()
	w.closed = true
	w.mu.Unlock()
	return nil
}

// VerifLast returns the most recently created watcher.
func VerifLast() *Watcher {
	regMu.Lock()
	defer regMu.Unlock()
	if len(watchers) == 0 {
		return nil
	}
	return watchers[len(watchers)-1]
}

// VerifInject hands one event to the watcher's consumer (blocks until it has been received).
func (w *Watcher) VerifInject(ev Event) { w.Events <- ev }
