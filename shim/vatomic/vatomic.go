// Package atomic (import path …/verifshim/vatomic) replaces sync/atomic in the rewritten
// copies of the sentinel sources. Every operation is a scheduling point (vsched.Point)
// followed by the real sync/atomic operation; with no scheduler attached it is a pass-through.
package atomic

import (
	ra "sync/atomic"
	"unsafe"

	"github.com/alibaba/sentinel-golang/verifshim/vsched"
)

// Value wraps the real atomic.Value; Load and Store are scheduling points (the circuit
// breaker's leap arrays replace a bucket's counter object on rollover).
type Value struct {
	v ra.Value
}

func (v *Value) Load() interface{} {
	vsched.Point(vsched.KVLoad, unsafe.Pointer(v))
	return v.v.Load()
}

// RawLoad reads the value without a scheduling point (harness accessors only).
func (v *Value) RawLoad() interface{} { return v.v.Load() }

func (v *Value) Store(val interface{}) {
	vsched.Point(vsched.KStore, unsafe.Pointer(v))
	v.v.Store(val)
	if vsched.Managed() && vsched.AfterOp != nil {
		vsched.AfterOp(vsched.KVStore, unsafe.Pointer(v), 0, 0, true)
	}
}

func (v *Value) Swap(new interface{}) interface{} {
	vsched.Point(vsched.KSwap, unsafe.Pointer(v))
	return v.v.Swap(new)
}

func (v *Value) CompareAndSwap(old, new interface{}) bool {
	vsched.Point(vsched.KCAS, unsafe.Pointer(v))
	ok := v.v.CompareAndSwap(old, new)
	after(vsched.KCAS, unsafe.Pointer(v), 0, 0, ok)
	return ok
}

type (
	Bool   = ra.Bool
	Int32  = ra.Int32
	Int64  = ra.Int64
	Uint32 = ra.Uint32
	Uint64 = ra.Uint64
)

//go:norace
func after(kind uint8, addr unsafe.Pointer, old, new uint64, ok bool) {
	if vsched.Managed() {
		vsched.Observe(new)
		if ok {
			vsched.Observe(1)
		}
		if vsched.AfterOp != nil {
			vsched.AfterOp(kind, addr, old, new, ok)
		}
	}
}

func LoadInt32(addr *int32) int32 {
	vsched.Point(vsched.KLoad, unsafe.Pointer(addr))
	v := ra.LoadInt32(addr)
	after(vsched.KLoad, unsafe.Pointer(addr), uint64(v), uint64(v), false)
	return v
}

func StoreInt32(addr *int32, val int32) {
	vsched.Point(vsched.KStore, unsafe.Pointer(addr))
	ra.StoreInt32(addr, val)
	if vsched.Managed() && vsched.AfterOp != nil {
		vsched.AfterOp(vsched.KStore, unsafe.Pointer(addr), 0, uint64(val), true)
	}
}

func AddInt32(addr *int32, delta int32) int32 {
	vsched.Point(vsched.KAdd, unsafe.Pointer(addr))
	v := ra.AddInt32(addr, delta)
	after(vsched.KAdd, unsafe.Pointer(addr), uint64(v-delta), uint64(v), true)
	return v
}

func SwapInt32(addr *int32, new int32) int32 {
	vsched.Point(vsched.KSwap, unsafe.Pointer(addr))
	v := ra.SwapInt32(addr, new)
	after(vsched.KSwap, unsafe.Pointer(addr), uint64(v), uint64(new), true)
	return v
}

func CompareAndSwapInt32(addr *int32, old, new int32) bool {
	vsched.Point(vsched.KCAS, unsafe.Pointer(addr))
	ok := ra.CompareAndSwapInt32(addr, old, new)
	after(vsched.KCAS, unsafe.Pointer(addr), uint64(old), uint64(new), ok)
	return ok
}

func LoadInt64(addr *int64) int64 {
	vsched.Point(vsched.KLoad, unsafe.Pointer(addr))
	v := ra.LoadInt64(addr)
	after(vsched.KLoad, unsafe.Pointer(addr), uint64(v), uint64(v), false)
	return v
}

func StoreInt64(addr *int64, val int64) {
	vsched.Point(vsched.KStore, unsafe.Pointer(addr))
	ra.StoreInt64(addr, val)
	if vsched.Managed() && vsched.AfterOp != nil {
		vsched.AfterOp(vsched.KStore, unsafe.Pointer(addr), 0, uint64(val), true)
	}
}

func AddInt64(addr *int64, delta int64) int64 {
	vsched.Point(vsched.KAdd, unsafe.Pointer(addr))
	v := ra.AddInt64(addr, delta)
	after(vsched.KAdd, unsafe.Pointer(addr), uint64(v-delta), uint64(v), true)
	return v
}

func SwapInt64(addr *int64, new int64) int64 {
	vsched.Point(vsched.KSwap, unsafe.Pointer(addr))
	v := ra.SwapInt64(addr, new)
	after(vsched.KSwap, unsafe.Pointer(addr), uint64(v), uint64(new), true)
	return v
}

func CompareAndSwapInt64(addr *int64, old, new int64) bool {
	vsched.Point(vsched.KCAS, unsafe.Pointer(addr))
	ok := ra.CompareAndSwapInt64(addr, old, new)
	after(vsched.KCAS, unsafe.Pointer(addr), uint64(old), uint64(new), ok)
	return ok
}

func LoadUint32(addr *uint32) uint32 {
	vsched.Point(vsched.KLoad, unsafe.Pointer(addr))
	v := ra.LoadUint32(addr)
	after(vsched.KLoad, unsafe.Pointer(addr), uint64(v), uint64(v), false)
	return v
}

func StoreUint32(addr *uint32, val uint32) {
	vsched.Point(vsched.KStore, unsafe.Pointer(addr))
	ra.StoreUint32(addr, val)
	if vsched.Managed() && vsched.AfterOp != nil {
		vsched.AfterOp(vsched.KStore, unsafe.Pointer(addr), 0, uint64(val), true)
	}
}

func AddUint32(addr *uint32, delta uint32) uint32 {
	vsched.Point(vsched.KAdd, unsafe.Pointer(addr))
	v := ra.AddUint32(addr, delta)
	after(vsched.KAdd, unsafe.Pointer(addr), uint64(v-delta), uint64(v), true)
	return v
}

func SwapUint32(addr *uint32, new uint32) uint32 {
	vsched.Point(vsched.KSwap, unsafe.Pointer(addr))
	v := ra.SwapUint32(addr, new)
	after(vsched.KSwap, unsafe.Pointer(addr), uint64(v), uint64(new), true)
	return v
}

func CompareAndSwapUint32(addr *uint32, old, new uint32) bool {
	vsched.Point(vsched.KCAS, unsafe.Pointer(addr))
	ok := ra.CompareAndSwapUint32(addr, old, new)
	after(vsched.KCAS, unsafe.Pointer(addr), uint64(old), uint64(new), ok)
	return ok
}

func LoadUint64(addr *uint64) uint64 {
	vsched.Point(vsched.KLoad, unsafe.Pointer(addr))
	v := ra.LoadUint64(addr)
	after(vsched.KLoad, unsafe.Pointer(addr), uint64(v), uint64(v), false)
	return v
}

func StoreUint64(addr *uint64, val uint64) {
	vsched.Point(vsched.KStore, unsafe.Pointer(addr))
	ra.StoreUint64(addr, val)
	if vsched.Managed() && vsched.AfterOp != nil {
		vsched.AfterOp(vsched.KStore, unsafe.Pointer(addr), 0, uint64(val), true)
	}
}

func AddUint64(addr *uint64, delta uint64) uint64 {
	vsched.Point(vsched.KAdd, unsafe.Pointer(addr))
	v := ra.AddUint64(addr, delta)
	after(vsched.KAdd, unsafe.Pointer(addr), uint64(v-delta), uint64(v), true)
	return v
}

func SwapUint64(addr *uint64, new uint64) uint64 {
	vsched.Point(vsched.KSwap, unsafe.Pointer(addr))
	v := ra.SwapUint64(addr, new)
	after(vsched.KSwap, unsafe.Pointer(addr), uint64(v), uint64(new), true)
	return v
}

func CompareAndSwapUint64(addr *uint64, old, new uint64) bool {
	vsched.Point(vsched.KCAS, unsafe.Pointer(addr))
	ok := ra.CompareAndSwapUint64(addr, old, new)
	after(vsched.KCAS, unsafe.Pointer(addr), uint64(old), uint64(new), ok)
	return ok
}

func LoadUintptr(addr *uintptr) uintptr {
	vsched.Point(vsched.KLoad, unsafe.Pointer(addr))
	v := ra.LoadUintptr(addr)
	after(vsched.KLoad, unsafe.Pointer(addr), uint64(v), uint64(v), false)
	return v
}

func StoreUintptr(addr *uintptr, val uintptr) {
	vsched.Point(vsched.KStore, unsafe.Pointer(addr))
	ra.StoreUintptr(addr, val)
	if vsched.Managed() && vsched.AfterOp != nil {
		vsched.AfterOp(vsched.KStore, unsafe.Pointer(addr), 0, uint64(val), true)
	}
}

func AddUintptr(addr *uintptr, delta uintptr) uintptr {
	vsched.Point(vsched.KAdd, unsafe.Pointer(addr))
	v := ra.AddUintptr(addr, delta)
	after(vsched.KAdd, unsafe.Pointer(addr), uint64(v-delta), uint64(v), true)
	return v
}

func SwapUintptr(addr *uintptr, new uintptr) uintptr {
	vsched.Point(vsched.KSwap, unsafe.Pointer(addr))
	v := ra.SwapUintptr(addr, new)
	after(vsched.KSwap, unsafe.Pointer(addr), uint64(v), uint64(new), true)
	return v
}

func CompareAndSwapUintptr(addr *uintptr, old, new uintptr) bool {
	vsched.Point(vsched.KCAS, unsafe.Pointer(addr))
	ok := ra.CompareAndSwapUintptr(addr, old, new)
	after(vsched.KCAS, unsafe.Pointer(addr), uint64(old), uint64(new), ok)
	return ok
}

func LoadPointer(addr *unsafe.Pointer) unsafe.Pointer {
	vsched.Point(vsched.KLoad, unsafe.Pointer(addr))
	v := ra.LoadPointer(addr)
	// pointer values are not stable across executions: observe nil-ness only
	if v == nil {
		after(vsched.KLoad, unsafe.Pointer(addr), 0, 0, false)
	} else {
		after(vsched.KLoad, unsafe.Pointer(addr), 1, 1, false)
	}
	return v
}

func StorePointer(addr *unsafe.Pointer, val unsafe.Pointer) {
	vsched.Point(vsched.KStore, unsafe.Pointer(addr))
	ra.StorePointer(addr, val)
}

func SwapPointer(addr *unsafe.Pointer, new unsafe.Pointer) unsafe.Pointer {
	vsched.Point(vsched.KSwap, unsafe.Pointer(addr))
	return ra.SwapPointer(addr, new)
}

func CompareAndSwapPointer(addr *unsafe.Pointer, old, new unsafe.Pointer) bool {
	vsched.Point(vsched.KCAS, unsafe.Pointer(addr))
	ok := ra.CompareAndSwapPointer(addr, old, new)
	after(vsched.KCAS, unsafe.Pointer(addr), 0, 0, ok)
	return ok
}
