//go:build !race

package vsched

import "unsafe"

func raceRelease(p unsafe.Pointer) {}
func raceAcquire(p unsafe.Pointer) {}
