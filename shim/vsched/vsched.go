// Package vsched is the controlled cooperative scheduler behind the shim packages
// (vatomic, vsync, vruntime). It is added to the sentinel module as a *virtual* package by
// the build overlay (see /verif/tools/mkoverlay.py); nothing in /repo is written.
//
// Model: a run has k managed threads (real goroutines). Exactly one of them (or the
// driver) holds the token `turn`; all others spin on it with runtime.Gosched (GOMAXPROCS=1).
// The hand-off is a plain variable accessed only from //go:norace functions, so it is
// invisible to Go's race detector: a serialised schedule still lets the detector see the
// program's own synchronisation only.
//
// Every shimmed operation calls Point before it executes. At a point the scheduler
// consults the chooser (a prefix of recorded choices, then choice 0) to decide which
// enabled thread performs its pending operation next.
//
// All functions here are //go:norace and closure free.
package vsched

import (
	"runtime"
	"unsafe"
)

// Operation kinds reported at a point.
const (
	KStart uint8 = iota
	KLoad
	KVLoad  // atomic.Value Load
	KVStore // atomic.Value Store (AfterOp only)
	KStore
	KAdd
	KSwap
	KCAS
	KLock
	KUnlock
	KRLock
	KWLock
	KRUnlock
	KOncePoint
	KPoolGet
	KPoolPut
	KYield
	KUser // harness defined point (phase markers, clock ticks, clock reads)
	KEnd
)

var KindNames = [...]string{"start", "load", "vload", "vstore", "store", "add", "swap", "cas", "lock", "unlock", "rlock", "wlock", "runlock", "once", "poolget", "poolput", "yield", "user", "end"}

const (
	stRunnable = iota
	stDone
)

const driver = -1

// Thread is one managed goroutine.
type thread struct {
	id     int
	fn     func()
	state  int
	yields int
	// fair scheduling (see schedule): lower = threads that currently have priority over this
	// one; contEn = threads continuously enabled since this thread's last yield; sched =
	// threads scheduled since then.
	lower  uint32
	contEn uint32
	sched  uint32
	// pending operation (valid while the thread waits at a point)
	kind uint8
	addr unsafe.Pointer
	// lock wait: the thread is enabled only if canRun(addr) says so
	waitKind uint8 // 0 none, KLock, KRLock
	// hash of everything this thread has observed so far (kinds and results)
	obs   uint64
	steps int
}

// PointRec is one recorded scheduling decision.
type PointRec struct {
	Enabled    []int8 // thread ids in canonical order
	Chosen     int8   // index into Enabled
	RunningEn  bool   // the thread that was running is Enabled[0] and could have continued
	Thread     int8   // thread that was running when the point was hit (-1 = driver/start)
	Kind       uint8  // pending op kind of the thread that was running
	SelfIdx    int8   // at a yield: index in Enabled of the yielding thread itself (-1 otherwise)
	Key        uint64 // state key at this point (keyed mode) else 0
	PrunedHere bool
}

// Exec is the result of one execution.
type Exec struct {
	Points    []PointRec
	Choices   []int
	Deadlock  bool
	Livelock  bool
	Horizon   bool
	Leaked    bool   // aborted threads did not terminate (blocked on a real primitive)
	Diverged  string // non-empty: replayed prefix did not match (nondeterminism)
	Steps     int
	PrunedAt  int // index of first point whose state had been seen before (-1 none)
	PanicVal  interface{}
	PanicThr  int
	ThreadObs []uint64
}

// Config of one run.
type Config struct {
	Prefix []int
	// Expect, if non nil, holds for each prefix position the (thread,kind) seen when the
	// prefix was recorded; a mismatch is reported as divergence.
	ExpectThread []int8
	ExpectKind   []uint8
	MaxSteps     int
	// Filter: if non nil, only points for which Filter(kind) is true are choice points;
	// other points run through without a scheduling decision.
	Filter func(kind uint8) bool
	// StateKey, if non nil, is evaluated at every choice point (keyed mode) together with
	// Visited.
	StateKey func() uint64
	Visited  map[uint64]struct{}
	// POR: partial-order reduction by shared-location detection. Memory operations on
	// registered locations (RegisterRegion) are choice points only if the location's id is in
	// Shared; every access is logged in Access (id -> thread mask, bit 31 = written) so the
	// explorer can iterate Shared to a fixpoint.
	POR    bool
	Shared map[uint64]bool
	Access map[uint64]uint32
	// LockHeld reports whether a lock-like object at addr currently blocks an acquire of
	// the given kind. Installed by vsync.
}

var (
	active   bool
	abort    bool
	cur      = driver
	turn     = driver
	threads  []*thread
	cfg      *Config
	ex       *Exec
	pos      int
	pruned   bool
	live     int
	joinWord uint64
	inKey    bool // evaluating the harness state key: shim calls pass through

	// LockBlocked is installed by vsync: reports whether acquiring (kind) the lock at addr
	// would block right now.
	LockBlocked func(kind uint8, addr unsafe.Pointer) bool

	// AfterOp, if non nil, is called by vatomic after each operation with its result.
	AfterOp func(kind uint8, addr unsafe.Pointer, old, new uint64, ok bool)
)

//go:norace
func Active() bool { return active }

// Managed reports whether the caller is a managed thread inside an active run.
//
//go:norace
func Managed() bool { return active && cur != driver && !inKey }

// Cur returns the id of the running managed thread (-1 for the driver).
//
//go:norace
func Cur() int { return cur }

//go:norace
func mix(h, v uint64) uint64 {
	h ^= v + 0x9e3779b97f4a7c15 + (h << 6) + (h >> 2)
	h *= 0xff51afd7ed558ccd
	h ^= h >> 33
	return h
}

// Mix is exported for harness key computation.
//
//go:norace
func Mix(h, v uint64) uint64 { return mix(h, v) }

// Observe folds a value read by the running thread into its observation hash.
//
//go:norace
func Observe(v uint64) {
	if !active || cur == driver || inKey {
		return
	}
	t := threads[cur]
	t.obs = mix(t.obs, v)
}

// WriterWaiting reports whether some live thread is parked at a write-lock acquisition of the
// RWMutex at addr. Go's RWMutex gives a blocked Lock call precedence over later RLock calls
// ("a blocked Lock call excludes new readers"); the shim needs this to decide whether a read
// lock attempt on a read-held mutex may proceed.
//
//go:norace
func WriterWaiting(addr unsafe.Pointer) bool {
	for _, t := range threads {
		if t != nil && t.state != stDone && t.waitKind == KWLock && t.addr == addr {
			return true
		}
	}
	return false
}

//go:norace
func enabledThread(t *thread) bool {
	if t.state == stDone {
		return false
	}
	if t.waitKind != 0 && LockBlocked != nil && LockBlocked(t.waitKind, t.addr) {
		return false
	}
	return true
}

//go:norace
func waitTurn(me int) {
	for turn != me {
		if abort {
			runtime.Goexit()
		}
		runtime.Gosched()
	}
	cur = me
}

// schedule is called by the running thread `me` (or the driver at start, me == driver)
// when it reaches a point / finishes. It picks the next thread and hands over.
//
// Fairness follows Musuvathi & Qadeer, "Fair Stateless Model Checking" (PLDI 2008): a
// thread that yields twice while some other thread stayed enabled without being scheduled
// gets a lower priority than that thread until it has run, so spin loops cannot starve the
// thread they wait for and the execution tree is finite.
//
//go:norace
func schedule(me int, isChoice bool) {
	var enMask uint32
	for _, t := range threads {
		if enabledThread(t) {
			enMask |= 1 << uint(t.id)
		}
	}
	// fairness bookkeeping for the step that `me` has just announced: the previous step's
	// effects are accounted when the next thread is chosen (below).
	var en [16]int8
	n := 0
	yielding := me != driver && threads[me].kind == KYield && threads[me].state != stDone
	meOK := me != driver && enMask&(1<<uint(me)) != 0 && threads[me].lower&enMask == 0
	if meOK && !yielding {
		en[n] = int8(me)
		n++
	}
	for _, t := range threads {
		if t.id == me {
			continue
		}
		if enMask&(1<<uint(t.id)) != 0 && t.lower&enMask == 0 {
			en[n] = int8(t.id)
			n++
		}
	}
	if meOK && yielding {
		en[n] = int8(me)
		n++
	}
	if n == 0 {
		if enMask != 0 {
			// cannot happen (the priority relation is acyclic); fail loudly
			ex.Diverged = "fair scheduler: no eligible thread among enabled ones"
		} else {
			for _, t := range threads {
				if t.state != stDone {
					ex.Deadlock = true
				}
			}
		}
		finishRun(me)
		return
	}
	ex.Steps++
	if cfg.MaxSteps > 0 && (ex.Steps > cfg.MaxSteps || forceHorizon) {
		spin := !forceHorizon
		for _, t := range threads {
			if t.state != stDone && t.yields < 100 {
				spin = false
			}
		}
		if spin {
			ex.Livelock = true
		} else {
			ex.Horizon = true
		}
		finishRun(me)
		return
	}
	choice := 0
	if n > 1 && isChoice && !pruned {
		rec := PointRec{Enabled: append([]int8(nil), en[:n]...), Thread: int8(me)}
		if me != driver {
			rec.Kind = threads[me].kind
		}
		rec.RunningEn = meOK && !yielding && en[0] == int8(me)
		rec.SelfIdx = -1
		if meOK && yielding {
			rec.SelfIdx = int8(n - 1)
		}
		if pos < len(cfg.Prefix) {
			choice = cfg.Prefix[pos]
			if choice >= n {
				ex.Diverged = "choice out of range"
				choice = 0
			}
			if cfg.ExpectThread != nil && pos < len(cfg.ExpectThread) {
				if cfg.ExpectThread[pos] != rec.Thread || cfg.ExpectKind[pos] != rec.Kind {
					ex.Diverged = "replayed point differs"
				}
			}
		} else if cfg.StateKey != nil {
			inKey = true
			k := stateKey(me)
			inKey = false
			rec.Key = k
			if _, seen := cfg.Visited[k]; seen {
				pruned = true
				rec.PrunedHere = true
				ex.PrunedAt = len(ex.Points)
			} else {
				cfg.Visited[k] = struct{}{}
			}
		}
		rec.Chosen = int8(choice)
		ex.Points = append(ex.Points, rec)
		ex.Choices = append(ex.Choices, choice)
		pos++
	}
	next := int(en[choice])
	nt := threads[next]
	// --- fairness update for scheduling `next` in the current state ---
	// (1) next is scheduled: nobody is waiting for it any more
	for _, t := range threads {
		t.lower &^= 1 << uint(next)
		t.sched |= 1 << uint(next)
		// E[u] shrinks to threads still enabled; threads that lose enabledness are accounted
		// in D[u] conservatively through enMask snapshots taken at yields.
		t.contEn &= enMask
	}
	if nt.kind == KYield {
		// (2) next performs a yield: threads continuously enabled since its previous yield and
		// never scheduled in between get priority over it.
		nt.yields++
		h := nt.contEn &^ nt.sched &^ (1 << uint(next))
		nt.lower |= h
		nt.contEn = enMask
		nt.sched = 0
	}
	nt.waitKind = 0
	if next != me {
		turn = next
		if me == driver || threads[me].state == stDone {
			return
		}
		waitTurn(me)
	}
}

//go:norace
func stateKey(me int) uint64 {
	h := cfg.StateKey()
	for _, t := range threads {
		h = mix(h, uint64(t.state))
		h = mix(h, t.obs)
		h = mix(h, uint64(t.steps))
		h = mix(h, uint64(t.lower)<<32|uint64(t.contEn&^t.sched))
		h = mix(h, uint64(t.kind))
	}
	h = mix(h, uint64(me+1))
	return h
}

//go:norace
func finishRun(me int) {
	// stop scheduling and wake the driver; unfinished threads are aborted (Goexit)
	unfinished := false
	for _, t := range threads {
		if t.state != stDone {
			unfinished = true
		}
	}
	active = false
	if unfinished {
		abort = true
	}
	turn = driver
	if me != driver && threads[me].state != stDone {
		runtime.Goexit()
	}
}

// forceHorizon is set by Point's fast path when one thread alone has exceeded the step horizon.
var forceHorizon bool

type region struct {
	base uintptr
	size uintptr
}

var regions []region

// ResetRegions forgets all registered regions (call at the start of Setup).
//
//go:norace
func ResetRegions() { regions = regions[:0] }

// RegisterRegion names size bytes at base; regions must be registered in a deterministic
// order so that (region index, offset) is a stable location id across executions.
//
//go:norace
func RegisterRegion(base unsafe.Pointer, size uintptr) {
	regions = append(regions, region{uintptr(base), size})
}

//go:norace
func idOf(addr unsafe.Pointer) uint64 {
	a := uintptr(addr)
	for i := range regions {
		r := &regions[i]
		if a >= r.base && a < r.base+r.size {
			return uint64(i+1)<<24 | uint64(a-r.base)
		}
	}
	return 0
}

// LocID exposes the stable id of an address (0 = not registered).
//
//go:norace
func LocID(addr unsafe.Pointer) uint64 { return idOf(addr) }

//go:norace
func isMemKind(k uint8) bool {
	return k == KLoad || k == KVLoad || k == KStore || k == KAdd || k == KSwap || k == KCAS
}

// Point is called by shims before a shared operation.
//
//go:norace
func Point(kind uint8, addr unsafe.Pointer) {
	if !active || cur == driver || inKey {
		return
	}
	me := cur
	t := threads[me]
	t.kind = kind
	t.addr = addr
	t.steps++
	t.obs = mix(t.obs, uint64(kind))
	if kind == KLock || kind == KRLock || kind == KWLock {
		t.waitKind = kind
	}
	isChoice := true
	if cfg.Filter != nil && !cfg.Filter(kind) {
		isChoice = false
	}
	if isChoice && cfg.POR && addr != nil && isMemKind(kind) {
		if id := idOf(addr); id != 0 {
			m := cfg.Access[id] | 1<<uint(me)
			if kind != KLoad && kind != KVLoad {
				m |= 1 << 31
			}
			cfg.Access[id] = m
			if !cfg.Shared[id] {
				isChoice = false
			}
		}
	}
	if !isChoice && enabledThread(t) {
		// operations that are not scheduling choices do not reach schedule(); a thread that loops over
		// such operations only (a spin on locations nobody else touches) must still meet the horizon
		if cfg.MaxSteps > 0 && t.steps > 8*cfg.MaxSteps {
			forceHorizon = true
		} else {
			t.waitKind = 0
			return
		}
	}
	schedule(me, isChoice)
}

// Yield is runtime.Gosched in the code under test: the caller is deprioritised until some
// other thread has taken a step.
//
//go:norace
func Yield() {
	if !active || cur == driver {
		runtime.Gosched()
		return
	}
	me := cur
	t := threads[me]
	t.kind = KYield
	t.steps++
	t.obs = mix(t.obs, uint64(KYield))
	schedule(me, true)
}

//go:norace
func threadMain(t *thread) {
	defer threadExit(t)
	waitTurn(t.id)
	t.fn()
}

//go:norace
func threadExit(t *thread) {
	if r := recover(); r != nil {
		if ex.PanicVal == nil {
			ex.PanicVal = r
			ex.PanicThr = t.id
		}
	}
	t.state = stDone
	t.kind = KEnd
	raceRelease(unsafe.Pointer(&joinWord))
	if !abort && active && cur == t.id {
		schedule(t.id, true)
	}
	live--
}

// Run executes fns as managed threads under the given config and returns the execution
// record. It must be called from an unmanaged goroutine with GOMAXPROCS=1.
//
//go:norace
func Run(c *Config, fns []func()) *Exec {
	cfg = c
	ex = &Exec{PrunedAt: -1}
	forceHorizon = false
	pos = 0
	pruned = false
	abort = false
	threads = threads[:0]
	for i, f := range fns {
		threads = append(threads, &thread{id: i, fn: f, kind: KStart})
	}
	cur = driver
	turn = driver
	active = true
	live = len(threads)
	for _, t := range threads {
		go threadMain(t)
	}
	schedule(driver, true)
	// driver waits until the run is over and every thread goroutine has left
	spins := 0
	for turn != driver || active || live > 0 {
		runtime.Gosched()
		if !active && turn == driver {
			spins++
			if spins > 2000000 {
				ex.Leaked = true
				break
			}
		}
	}
	cur = driver
	// joining the threads is a happens-before edge in any real driver (WaitGroup, channel)
	raceAcquire(unsafe.Pointer(&joinWord))
	for _, t := range threads {
		ex.ThreadObs = append(ex.ThreadObs, t.obs)
	}
	return ex
}
