//go:build race

package vsched

import (
	"runtime"
	"unsafe"
)

func raceRelease(p unsafe.Pointer) { runtime.RaceReleaseMerge(p) }
func raceAcquire(p unsafe.Pointer) { runtime.RaceAcquire(p) }
